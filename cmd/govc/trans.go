package main

// SSA -> verification conditions. One `tr` per function under contract.
// Memory model (DESIGN.md 2.3): typed component heaps H_<sort> : atype -> ref -> cell -> value.

import (
	"crypto/sha1"
	"fmt"
	"go/ast"
	"go/token"
	"go/types"
	"regexp"
	"sort"
	"strconv"
	"strings"
	"sync"

	"golang.org/x/tools/go/ssa"
)

// ---------------------------------------------------------------- sorts & layout

func smtSort(s string) string {
	switch s {
	case "int", "func", "map", "chan":
		return "Int"
	case "bool":
		return "Bool"
	case "str":
		return "GStr"
	case "loc":
		return "Loc"
	case "slice":
		return "Slice"
	case "iface":
		return "Iface"
	case "f64":
		return "F64"
	case "f32":
		return "F32"
	case "seq":
		return "BSeq"
	}
	panic("sort " + s)
}

func zeroOf(s string) string {
	switch s {
	case "int", "func", "map", "chan":
		return "0"
	case "bool":
		return "false"
	case "str":
		return "str_empty"
	case "loc":
		return "nullloc"
	case "slice":
		return "nullslice"
	case "iface":
		return "niliface"
	case "f64":
		return "f64zero"
	case "f32":
		return "f32zero"
	case "seq":
		return "seq_empty"
	}
	panic("zero " + s)
}

// leafSort returns the heap sort of a type that occupies exactly one cell, or "".
func leafSort(t types.Type) string {
	switch u := t.Underlying().(type) {
	case *types.Basic:
		switch {
		case u.Info()&types.IsBoolean != 0:
			return "bool"
		case u.Info()&types.IsInteger != 0:
			return "int"
		case u.Info()&types.IsString != 0:
			return "str"
		case u.Kind() == types.UnsafePointer:
			return "int"
		case u.Kind() == types.Float32:
			return "f32"
		case u.Info()&types.IsFloat != 0:
			return "f64"
		case u.Kind() == types.UntypedNil:
			return "iface"
		case u.Info()&types.IsComplex != 0:
			return "int"
		}
	case *types.Pointer:
		return "loc"
	case *types.Map:
		return "map"
	case *types.Chan:
		return "chan"
	case *types.Slice:
		return "slice"
	case *types.Interface:
		return "iface"
	case *types.Signature:
		return "func"
	}
	return ""
}

var leavesCache sync.Map

// leaves flattens a type into its cells.
func leaves(t types.Type) []string {
	if s := leafSort(t); s != "" {
		return []string{s}
	}
	if v, ok := leavesCache.Load(t); ok {
		return v.([]string)
	}
	var out []string
	switch u := t.Underlying().(type) {
	case *types.Struct:
		for i := 0; i < u.NumFields(); i++ {
			out = append(out, leaves(u.Field(i).Type())...)
		}
	case *types.Array:
		el := leaves(u.Elem())
		for i := int64(0); i < u.Len(); i++ {
			out = append(out, el...)
		}
	case *types.Tuple:
		for i := 0; i < u.Len(); i++ {
			out = append(out, leaves(u.At(i).Type())...)
		}
	default:
		panic(fmt.Sprintf("leaves: %v (%T)", t, t.Underlying()))
	}
	leavesCache.Store(t, out)
	return out
}

func stride(t types.Type) int { return len(leaves(t)) }

func fieldOffset(st *types.Struct, f int) int {
	off := 0
	for i := 0; i < f; i++ {
		off += stride(st.Field(i).Type())
	}
	return off
}

func intRange(t types.Type) (lo, hi string, ok bool) {
	b, isb := t.Underlying().(*types.Basic)
	if !isb || b.Info()&types.IsInteger == 0 {
		return "", "", false
	}
	switch b.Kind() {
	case types.Int8:
		return "(- 128)", "127", true
	case types.Int16:
		return "(- 32768)", "32767", true
	case types.Int32:
		return "(- 2147483648)", "2147483647", true
	case types.Int, types.Int64, types.UntypedInt:
		return "(- 9223372036854775808)", "9223372036854775807", true
	case types.Uint8:
		return "0", "255", true
	case types.Uint16:
		return "0", "65535", true
	case types.Uint32:
		return "0", "4294967295", true
	case types.Uint, types.Uint64, types.Uintptr:
		return "0", "18446744073709551615", true
	}
	return "", "", false
}

func isUnsigned(t types.Type) bool {
	b, ok := t.Underlying().(*types.Basic)
	return ok && b.Info()&types.IsUnsigned != 0
}

func bitWidth(t types.Type) int {
	b, ok := t.Underlying().(*types.Basic)
	if !ok {
		return 64
	}
	switch b.Kind() {
	case types.Uint8, types.Int8:
		return 8
	case types.Uint16, types.Int16:
		return 16
	case types.Uint32, types.Int32:
		return 32
	}
	return 64
}

func pow2(n int) string {
	switch n {
	case 8:
		return "256"
	case 16:
		return "65536"
	case 32:
		return "4294967296"
	case 64:
		return "18446744073709551616"
	case 7:
		return "128"
	case 15:
		return "32768"
	case 31:
		return "2147483648"
	case 63:
		return "9223372036854775808"
	}
	// generic
	v := new(bigInt).lsh(n)
	return v.String()
}

// tiny big-int helper (avoid importing math/big everywhere)
type bigInt struct{ s string }

func (b *bigInt) lsh(n int) *bigInt {
	// compute 2^n as decimal string
	digits := []int{1}
	for i := 0; i < n; i++ {
		carry := 0
		for j := 0; j < len(digits); j++ {
			d := digits[j]*2 + carry
			digits[j] = d % 10
			carry = d / 10
		}
		if carry > 0 {
			digits = append(digits, carry)
		}
	}
	var sb strings.Builder
	for i := len(digits) - 1; i >= 0; i-- {
		sb.WriteByte(byte('0' + digits[i]))
	}
	b.s = sb.String()
	return b
}
func (b *bigInt) String() string { return b.s }

// wrapInt normalises a mathematical result e of a single +/- into the machine range of ty.
func wrapAddSub(e string, ty types.Type) string {
	w := bitWidth(ty)
	m := pow2(w)
	if isUnsigned(ty) {
		return fmt.Sprintf("(let ((we %s)) (ite (>= we %s) (- we %s) (ite (< we 0) (+ we %s) we)))", e, m, m, m)
	}
	h := pow2(w - 1)
	return fmt.Sprintf("(let ((we %s)) (ite (>= we %s) (- we %s) (ite (< we (- %s)) (+ we %s) we)))", e, h, m, h, m)
}

// wrapMod normalises an arbitrary mathematical integer into the machine range of ty.
func wrapMod(e string, ty types.Type) string {
	w := bitWidth(ty)
	m := pow2(w)
	if isUnsigned(ty) {
		return fmt.Sprintf("(mod %s %s)", e, m)
	}
	h := pow2(w - 1)
	return fmt.Sprintf("(let ((wm (mod %s %s))) (ite (>= wm %s) (- wm %s) wm))", e, m, h, m)
}

// ---------------------------------------------------------------- engine-wide registries

type Engine struct {
	prog  *ssa.Program
	specs *Specs
	mu    sync.Mutex
	tags  map[string]int
	tagTy map[int]types.Type
	lits  map[string]string
	litOrder []string
	embedded map[string]bool // named struct types that occur by value inside another struct/array (no pointer type invariant)
	arrayElem map[string]bool // element types that occur in Go array types
	byName map[string]*ssa.Function
	globalsWritten map[string]bool // globals assigned outside init
	fset *token.FileSet
	pkgs map[string]*ssa.Package
	uncomparable map[int]bool
	globalFuncInit map[string]*ssa.Function
	elemKeys  map[string]int      // slice element types seen in type facts -> index of their okslice_<k> predicate
	elemTypes []types.Type
	elemNames []string            // content-based suffix of okslice_<name>, parallel to elemTypes
	structTags []int              // tags of the named struct types registered at load time (deterministic order)
}

// elemIndex registers a slice element type and returns the index of its backing-object predicate.
func (e *Engine) elemIndex(el types.Type) string {
	e.mu.Lock()
	defer e.mu.Unlock()
	k := typeKey(el)
	// content-based name: the script of a function must not depend on which other functions were translated before it
	h := sha1.Sum([]byte(k))
	name := fmt.Sprintf("%x", h[:5])
	if _, ok := e.elemKeys[k]; ok {
		return name
	}
	e.elemKeys[k] = len(e.elemTypes)
	e.elemTypes = append(e.elemTypes, el)
	e.elemNames = append(e.elemNames, name)
	return name
}

// typeContains: does a value of type t hold (by value: fields, array elements) a cell of type el?
func typeContains(t, el types.Type, depth int) bool {
	if depth > 6 {
		return true
	}
	if types.Identical(t, el) || typeKey(t) == typeKey(el) {
		return true
	}
	switch u := t.Underlying().(type) {
	case *types.Struct:
		for i := 0; i < u.NumFields(); i++ {
			if typeContains(u.Field(i).Type(), el, depth+1) {
				return true
			}
		}
	case *types.Array:
		return typeContains(u.Elem(), el, depth+1)
	}
	return false
}

// typeHoldsArrayOf: an object of type t contains an array whose elements have type el (directly, or inside nested
// structs / arrays). Go (without unsafe) creates slices only by slicing arrays and other slices, by make/append and by
// conversion from a string: a []el can therefore point only into an array of el or into the backing object of a []el.
func typeHoldsArrayOf(t, el types.Type, depth int) bool {
	if depth > 6 {
		return true
	}
	switch u := t.Underlying().(type) {
	case *types.Struct:
		for i := 0; i < u.NumFields(); i++ {
			if typeHoldsArrayOf(u.Field(i).Type(), el, depth+1) {
				return true
			}
		}
	case *types.Array:
		if types.Identical(u.Elem(), el) || typeKey(u.Elem()) == typeKey(el) {
			return true
		}
		return typeHoldsArrayOf(u.Elem(), el, depth+1)
	}
	return false
}

var reByteRune = regexp.MustCompile(`\b(byte|rune)\b`)

// typeKey: canonical name of a type (the aliases byte and rune are spelled uint8 and int32)
func typeKey(ty types.Type) string {
	k := types.TypeString(ty, nil)
	if strings.Contains(k, "byte") || strings.Contains(k, "rune") {
		k = reByteRune.ReplaceAllStringFunc(k, func(m string) string {
			if m == "byte" {
				return "uint8"
			}
			return "int32"
		})
	}
	return k
}

func (e *Engine) tag(ty types.Type) int {
	e.mu.Lock()
	defer e.mu.Unlock()
	k := typeKey(ty)
	if n, ok := e.tags[k]; ok {
		return n
	}
	n := len(e.tags) + 1
	e.tags[k] = n
	e.tagTy[n] = ty
	if !types.Comparable(ty) {
		e.uncomparable[n] = true
	}
	return n
}

// sliceTag: allocation type tag of the backing object that make/append create for a slice type (named slice types
// share the tag of their unnamed underlying type, since conversion keeps the backing object).
func (e *Engine) sliceTag(ty types.Type) int {
	st := ty.Underlying().(*types.Slice)
	return e.tag(types.NewSlice(st.Elem()))
}

func (e *Engine) tagByName(name string) (int, bool) {
	e.mu.Lock()
	defer e.mu.Unlock()
	n, ok := e.tags[name]
	return n, ok
}

func (e *Engine) lit(s string) string {
	if s == "" {
		return "str_empty"
	}
	e.mu.Lock()
	defer e.mu.Unlock()
	if n, ok := e.lits[s]; ok {
		return n
	}
	// content-based name: independent of which other functions are being translated at the same time
	h := sha1.Sum([]byte(s))
	n := fmt.Sprintf("lit_%x", h[:6])
	for _, other := range e.lits {
		if other == n {
			panic("string literal name collision")
		}
	}
	e.lits[s] = n
	e.litOrder = append(e.litOrder, s)
	return n
}

// ---------------------------------------------------------------- translator

type Obligation struct {
	Name   string
	Kind   string // requires | ensures | loop | safe | crash | frame
	Guard  string
	Goal   string
	Pos    token.Pos
	Where  string
	// results
	Status string // unsat(discharged) | sat | unknown | timeout | error
	Solver string
	Millis int64
	Model  string
	Note   string
}

type allocInfo struct {
	ref string
	v   ssa.Value
}

type tr struct {
	eng   *Engine
	prog  *ssa.Program
	fn    *ssa.Function
	own   *FuncSpec
	fnKey string
	pkg   *types.Package

	out   strings.Builder
	decls strings.Builder

	val    map[ssa.Value][]string
	reach  map[*ssa.BasicBlock]string
	heapAt map[*ssa.BasicBlock]map[string]string // heap versions at block exit
	heapIn map[*ssa.BasicBlock]map[string]string // at block entry (after loop cut)
	heapN  map[string]int
	heap0  map[string]string
	heapSorts map[string]string

	obls     []*Obligation
	oblNames map[string]int
	nfresh   int
	ptrs     []string // ref terms of pointer-ish values defined so far (fresh allocations are distinct from them)
	allocs   []allocInfo
	escapes  map[ssa.Value]bool // allocation sites whose address may be stored in memory / retained by a callee
	taint    map[ssa.Value]map[ssa.Value]bool
	ext      map[ssa.Value]bool              // value may reference an object not allocated by this invocation
	escEvents map[ssa.Value][]ssa.Instruction // allocation site -> instructions at which (a pointer into) it may escape
	breach   map[*ssa.BasicBlock]map[*ssa.BasicBlock]bool // CFG reachability over >= 1 edge

	loopHdr   map[*ssa.BasicBlock]int
	loopBody  map[*ssa.BasicBlock]map[*ssa.BasicBlock]bool
	loopState map[*ssa.BasicBlock]*loopCut
	callCount map[string]int
	returns   []string
	retBlocks []*ssa.BasicBlock
	ownTg     map[string][]modTarget
	specFacts map[string]bool
	stopped   bool
	assertsSeen map[string]bool
	callOrd   map[ssa.Instruction]int
	callAlias map[ssa.Instruction]map[string]int // helper call -> callee names called inside the (inlined) helper -> ordinal
	storeOrd  map[ssa.Instruction]int // ordinal (source order) of a store among the stores to a field of the same name
	ghostSetSeen map[string]bool
	predDefs  map[string]string
	qsort     map[string]string
	opaquePreds map[string]bool          // predicates treated as uninterpreted over their footprint in this unit
	footprint map[string]*predFootprint // computed footprints of opaque predicates
	dryRun    int // >0: expressions are evaluated only for their shape (no facts are emitted)
	pfx       string // name prefix of an inlined callee
	parent    *tr
	depth     int
	retInfo   []inlineRet
	entryReach string
	entryHeapsInl map[string]string
	inlineN   int
	mapGetDecl map[string]bool
	epoch     int // allocation clock: objects known at a point have born <= epoch there, later allocations born > it

	defers []*deferRec

	// bookkeeping for the evidence
	unknownCallees map[string]bool
	trustedUsed    map[string]bool
	contractsUsed  map[string]bool
	abstracted     map[string]int
	fatal          []string
	entryEnv       *senv
	curBlock       *ssa.BasicBlock
	oldHeaps       map[string]string
	letCache       map[string]*sv
}

type inlineRet struct {
	R     string
	vals  []string
	heaps map[string]string
}

type deferRec struct {
	call  *ssa.Defer
	flag  string // heap-like Bool name
	args  []string
	fnval []string
}

type loopCut struct {
	ls      *LoopSpec
	k       int
	decr0   string
	havoced map[string]bool
}

func newTr(eng *Engine, fn *ssa.Function) *tr {
	t := &tr{eng: eng, prog: eng.prog, fn: fn, val: map[ssa.Value][]string{}, reach: map[*ssa.BasicBlock]string{},
		heapAt: map[*ssa.BasicBlock]map[string]string{}, heapIn: map[*ssa.BasicBlock]map[string]string{}, heapN: map[string]int{}, heap0: map[string]string{}, heapSorts: map[string]string{},
		oblNames: map[string]int{}, loopHdr: map[*ssa.BasicBlock]int{}, loopBody: map[*ssa.BasicBlock]map[*ssa.BasicBlock]bool{}, loopState: map[*ssa.BasicBlock]*loopCut{}, callCount: map[string]int{},
		unknownCallees: map[string]bool{}, trustedUsed: map[string]bool{}, contractsUsed: map[string]bool{}, abstracted: map[string]int{},
		escapes: map[ssa.Value]bool{}, taint: map[ssa.Value]map[ssa.Value]bool{}, letCache: map[string]*sv{}, specFacts: map[string]bool{}, assertsSeen: map[string]bool{}, predDefs: map[string]string{}, qsort: map[string]string{}}
	t.fnKey = fn.String()
	t.own = eng.specs.Funcs[t.fnKey]
	t.opaquePreds = map[string]bool{}
	t.footprint = map[string]*predFootprint{}
	if t.own != nil {
		for _, n := range t.own.Opaque {
			t.opaquePreds[n] = true
		}
	}
	if fn.Pkg != nil {
		t.pkg = fn.Pkg.Pkg
	} else if fn.Parent() != nil && fn.Parent().Pkg != nil {
		t.pkg = fn.Parent().Pkg.Pkg
	}
	return t
}

func (t *tr) fresh(prefix, sort string) string {
	t.nfresh++
	n := fmt.Sprintf("%s_%s%d", prefix, t.pfx, t.nfresh)
	fmt.Fprintf(&t.decls, "(declare-const %s %s)\n", n, sort)
	return n
}

// mapGetFn declares (once per script) the lookup function of maps with key sort ks and element sort vs.
func (t *tr) mapGetFn(ks, vs string) string {
	root := t
	for root.parent != nil {
		root = root.parent
	}
	fn := "mapget_" + ks + "_" + vs
	if root.mapGetDecl == nil {
		root.mapGetDecl = map[string]bool{}
	}
	if !root.mapGetDecl[fn] {
		root.mapGetDecl[fn] = true
		K, V := smtSort(ks), smtSort(vs)
		fmt.Fprintf(&root.decls, "(declare-fun %s ((Array Int (Array %s Bool)) (Array Int (Array %s %s)) Int %s) %s)\n", fn, K, K, V, K, V)
		fmt.Fprintf(&root.decls, "(assert (forall ((d (Array Int (Array %s Bool))) (v (Array Int (Array %s %s))) (m Int) (k %s)) (! (= (%s d v m k) (ite (and (not (= m 0)) (select (select d m) k)) (select (select v m) k) %s)) :pattern ((%s d v m k)))))\n", K, K, V, K, fn, zeroOf(vs), fn)
	}
	return fn
}

// regPtr records a reference that denotes an object known at this point (allocated no later than now). Everything that
// is allocated afterwards (newRef, fresh results of callees) gets a larger allocation stamp, hence is a different
// object: one fact per reference instead of one per pair.
func (t *tr) regPtr(ref string) {
	t.ptrs = append(t.ptrs, ref)
	t.assume("", fmt.Sprintf("(<= (born %s) %d)", ref, t.epoch))
}

func (t *tr) abstractf(f string, a ...interface{}) {
	t.abstracted[fmt.Sprintf(f, a...)]++
}

func (t *tr) fatalf(f string, a ...interface{}) {
	t.fatal = append(t.fatal, fmt.Sprintf(f, a...))
}

// ---- heaps

func (t *tr) heapSortOf(name string) string {
	if s, ok := t.heapSorts[name]; ok {
		return s
	}
	var s string
	switch {
	case strings.HasPrefix(name, "H_"):
		s = fmt.Sprintf("(Array Int (Array Int (Array Int %s)))", smtSort(name[2:]))
	case strings.HasPrefix(name, "G_"):
		g := t.eng.specs.Ghosts[name[2:]]
		if g == nil {
			panic("unknown ghost " + name)
		}
		s = smtSort(ghostValSort(g.Val))
		for i := len(g.Keys) - 1; i >= 0; i-- {
			s = fmt.Sprintf("(Array %s %s)", ghostKeySort(g.Keys[i]), s)
		}
	case strings.HasPrefix(name, "D_"):
		s = "Bool"
	case strings.HasPrefix(name, "MD_"): // map domain: ref -> key -> Bool
		s = fmt.Sprintf("(Array Int (Array %s Bool))", smtSort(name[3:]))
	case strings.HasPrefix(name, "MV_"): // map values: ref -> key -> val
		p := strings.SplitN(name[3:], "_", 2)
		s = fmt.Sprintf("(Array Int (Array %s %s))", smtSort(p[0]), smtSort(p[1]))
	case name == "ML": // map length
		s = "(Array Int Int)"
	default:
		panic("heap " + name)
	}
	t.heapSorts[name] = s
	return s
}

func ghostValSort(v string) string {
	switch v {
	case "bool", "int", "str", "seq", "iface", "loc", "slice", "f32", "f64":
		return v
	case "ref":
		return "int"
	}
	panic("ghost value sort " + v)
}

func ghostKeySort(k string) string {
	switch k {
	case "ref", "int":
		return "Int"
	case "str":
		return "GStr"
	case "seq":
		return "BSeq"
	case "iface":
		return "Iface"
	}
	panic("ghost key sort " + k)
}

// H returns the current version of a heap, declaring version 0 on first use.
func (t *tr) H(heaps map[string]string, name string) string {
	if v, ok := heaps[name]; ok {
		return v
	}
	v := t.heapV0(name)
	heaps[name] = v
	return v
}

func (t *tr) heapV0(name string) string {
	if v, ok := t.heap0[name]; ok {
		return v
	}
	v := name + "_v0"
	fmt.Fprintf(&t.decls, "(declare-const %s %s)\n", v, t.heapSortOf(name))
	if strings.HasPrefix(name, "D_") {
		fmt.Fprintf(&t.decls, "(assert (= %s false))\n", v)
	}
	t.heap0[name] = v
	// the entry heap is closed under reachability: whatever a cell of an object that existed at entry refers to existed at
	// entry as well
	switch name {
	case "H_loc":
		fmt.Fprintf(&t.decls, "(assert (forall ((ty Int) (o Int) (c Int)) (! (=> (existed o) (existed (lref (select (select (select %s ty) o) c)))) :pattern ((select (select (select %s ty) o) c)))))\n", v, v)
	case "H_slice":
		fmt.Fprintf(&t.decls, "(assert (forall ((ty Int) (o Int) (c Int)) (! (=> (existed o) (existed (sref (select (select (select %s ty) o) c)))) :pattern ((select (select (select %s ty) o) c)))))\n", v, v)
	case "H_iface":
		fmt.Fprintf(&t.decls, "(assert (forall ((ty Int) (o Int) (c Int)) (! (=> (existed o) (and (existed (lref (iloc (select (select (select %s ty) o) c)))) (existed (sref (islice (select (select (select %s ty) o) c)))))) :pattern ((select (select (select %s ty) o) c)))))\n", v, v, v)
	}
	return v
}

func (t *tr) newHeap(name string) string {
	t.heapV0(name)
	t.heapN[name]++
	n := fmt.Sprintf("%s_v%d", name, t.heapN[name])
	fmt.Fprintf(&t.decls, "(declare-const %s %s)\n", n, t.heapSortOf(name))
	return n
}

// setHeap introduces a new version equal to expr.
func (t *tr) setHeap(heaps map[string]string, name, expr string) string {
	n := t.newHeap(name)
	fmt.Fprintf(&t.out, "(assert (= %s %s))\n", n, expr)
	heaps[name] = n
	return n
}

func (t *tr) assume(guard, fact string) {
	if fact == "true" || fact == "" || t.dryRun > 0 {
		return
	}
	if guard == "" || guard == "true" {
		fmt.Fprintf(&t.out, "(assert %s)\n", fact)
	} else {
		fmt.Fprintf(&t.out, "(assert (=> %s %s))\n", guard, fact)
	}
}

func (t *tr) oblige(kind, name, guard, goal string, pos token.Pos) *Obligation {
	full := name
	if t.parent != nil {
		full = "inlined[" + shortName(t.fnKey) + "]/" + name
	}
	t.oblNames[full]++
	if n := t.oblNames[full]; n > 1 {
		full = fmt.Sprintf("%s~%d", full, n)
	}
	o := &Obligation{Name: full, Kind: kind, Guard: guard, Goal: goal, Pos: pos, Where: t.posStr(pos)}
	// the obligation is checked at this point of the script: only facts established before it are in scope
	root := t
	for root.parent != nil {
		root = root.parent
	}
	fmt.Fprintf(&t.out, ";;OBL %d\n", len(root.obls))
	root.obls = append(root.obls, o)
	return o
}

func (t *tr) posStr(pos token.Pos) string {
	if pos == token.NoPos {
		return "?"
	}
	p := t.prog.Fset.Position(pos)
	return fmt.Sprintf("%s:%d", p.Filename[strings.LastIndex(p.Filename, "/")+1:], p.Line)
}

func sanitize(s string) string {
	r := strings.NewReplacer("/", "_", ".", "_", "(", "", ")", "", "*", "p", " ", "_", "$", "_", "[", "_", "]", "_", ",", "_", "{", "", "}", "", ";", "_", "-", "_", "#", "_", ":", "_", "'", "_", "\"", "_", "<", "_", ">", "_")
	return r.Replace(s)
}

// syntactic destructuring of (mkloc a b c) so that heap accesses have the shape triggers expect
func locParts(loc string) (string, string, string) {
	if strings.HasPrefix(loc, "(mkloc ") {
		args := splitSexprArgs(loc)
		if len(args) == 4 {
			return args[1], args[2], args[3]
		}
	}
	return "(ltyp " + loc + ")", "(lref " + loc + ")", "(lcell " + loc + ")"
}

func addConst(term string, k int) string {
	if k == 0 {
		return term
	}
	if strings.HasPrefix(term, "(cidx ") {
		// cell of a composite slice element: (cidx base stride i f) -> field offset f+k inside the same element
		a := splitSexprArgs(term)
		if len(a) == 5 {
			if f, err := strconv.Atoi(a[4]); err == nil {
				return fmt.Sprintf("(cidx %s %s %s %d)", a[1], a[2], a[3], f+k)
			}
		}
	}
	if n, err := strconv.Atoi(term); err == nil {
		return strconv.Itoa(n + k)
	}
	return fmt.Sprintf("(+ %s %d)", term, k)
}

// addTerms builds off+idx, cancelling idx = (- x off).
func addTerms(off, idx string) string {
	if idx == "0" {
		return off
	}
	if off == "0" {
		return idx
	}
	if strings.HasPrefix(idx, "(- ") && strings.HasSuffix(idx, " "+off+")") {
		inner := splitSexprArgs(idx)
		if len(inner) == 3 && inner[2] == off {
			return inner[1]
		}
	}
	return fmt.Sprintf("(+ %s %s)", off, idx)
}

func sel(heap, loc string) string {
	a, b, c := locParts(loc)
	return fmt.Sprintf("(select (select (select %s %s) %s) %s)", heap, a, b, c)
}

func selAt(heap, loc string, k int) string {
	a, b, c := locParts(loc)
	return fmt.Sprintf("(select (select (select %s %s) %s) %s)", heap, a, b, addConst(c, k))
}

func sto(heap, loc, v string) string {
	a, b, c := locParts(loc)
	return fmt.Sprintf("(store %s %s (store (select %s %s) %s (store (select (select %s %s) %s) %s %s)))", heap, a, heap, a, b, heap, a, b, c, v)
}

func locPlus(loc string, k int) string {
	if k == 0 {
		return loc
	}
	a, b, c := locParts(loc)
	return fmt.Sprintf("(mkloc %s %s %s)", a, b, addConst(c, k))
}

func locPlusTerm(loc, idx string) string {
	a, b, c := locParts(loc)
	return fmt.Sprintf("(mkloc %s %s %s)", a, b, addTerms(c, idx))
}

// sliceElemLoc: address of element idx of slice s. Elements of more than one cell are addressed through the
// uninterpreted cidx(base, stride, i, field) (= base + stride*i + field): triggers then contain no arithmetic.
func sliceElemLoc(s, idx string, stride int, tagConst string) string {
	typ := "(styp " + s + ")"
	if tagConst != "" {
		typ = tagConst // the allocation type of the backing object is determined by the element type (typed memory)
	}
	if stride > 1 {
		return fmt.Sprintf("(mkloc %s (sref %s) (cidx (soff %s) %d %s 0))", typ, s, s, stride, idx)
	}
	return fmt.Sprintf("(mkloc %s (sref %s) %s)", typ, s, addTerms("(soff "+s+")", idx))
}

// sliceTagConst: the constant allocation tag of the backing object of a slice type, when its element type occurs in no
// (non-empty) array type; "" otherwise.
func (t *tr) sliceTagConst(ty types.Type) string {
	st, ok := ty.Underlying().(*types.Slice)
	if !ok || t.eng.arrayElem[types.TypeString(st.Elem(), nil)] {
		return ""
	}
	return fmt.Sprint(t.eng.sliceTag(ty))
}

// fieldLoc: address of a field reached through pointer term p of static type pty. When the pointee is a named struct
// that is never embedded by value, the address uses the constant allocation tag and cell offset (type invariant).
func (t *tr) fieldLoc(p string, pty types.Type, off int) string {
	if tag, ok := t.ptrTypeInvariant(pty); ok {
		_, r, _ := locParts(p)
		return fmt.Sprintf("(mkloc %d %s %d)", tag, r, off)
	}
	return locPlus(p, off)
}

// ---------------------------------------------------------------- values

func (t *tr) v(x ssa.Value) string {
	vs := t.vals(x)
	if len(vs) != 1 {
		panic(fmt.Sprintf("value %s (%s) has %d components in %s", x.Name(), x.Type(), len(vs), t.fnKey))
	}
	return vs[0]
}

func (t *tr) vals(x ssa.Value) []string {
	if vs, ok := t.val[x]; ok {
		return vs
	}
	switch c := x.(type) {
	case *ssa.Const:
		return t.constTerms(c)
	case *ssa.Global:
		n := "glob_" + sanitize(c.Pkg.Pkg.Path()+"_"+c.Name())
		if _, done := t.heapSorts["@decl:"+n]; !done {
			t.heapSorts["@decl:"+n] = "x"
			fmt.Fprintf(&t.decls, "(declare-const %s Int)\n(assert (< %s 0))\n", n, n)
		}
		elem := c.Type().(*types.Pointer).Elem()
		t.val[x] = []string{fmt.Sprintf("(mkloc %d %s 0)", t.eng.tag(elem), n)}
		return t.val[x]
	case *ssa.Function:
		t.val[x] = []string{t.funcSym(c)}
		return t.val[x]
	case *ssa.Builtin:
		return []string{"0"}
	}
	panic(fmt.Sprintf("undefined value %s (%T) in %s", x.Name(), x, t.fn))
}

var funcSyms sync.Map

func (t *tr) funcSym(f *ssa.Function) string {
	n := "fn_" + sanitize(f.String())
	if _, done := t.heapSorts["@decl:"+n]; !done {
		t.heapSorts["@decl:"+n] = "x"
		// function symbols are positive distinct integers: id from tag registry of a pseudo type name
		id := t.eng.tag(types.NewNamed(types.NewTypeName(token.NoPos, nil, "func:"+f.String(), nil), types.Typ[types.Int], nil))
		fmt.Fprintf(&t.decls, "(define-fun %s () Int %d)\n", n, 1000000+id)
	}
	return n
}

func (t *tr) constTerms(c *ssa.Const) []string {
	ty := c.Type()
	ls := leafSort(ty)
	if c.Value == nil {
		if ls == "" {
			var zs []string
			for _, l := range leaves(ty) {
				zs = append(zs, zeroOf(l))
			}
			return zs
		}
		return []string{zeroOf(ls)}
	}
	return []string{constLit(t.eng, c, ls)}
}

// define introduces a named constant equal to expr for an SSA value.
func (t *tr) define(x ssa.Value, sort, expr string) string {
	if sort == "Loc" && strings.HasPrefix(expr, "(mkloc ") && len(expr) < 400 {
		// an address built from known components stays a term: later accesses then see its allocation tag, object and
		// cell syntactically (no (ltyp v) indirection for the solver to resolve)
		t.val[x] = []string{expr}
		return expr
	}
	n := fmt.Sprintf("v%s%d_%s", t.pfx, len(t.val), sanitize(x.Name()))
	fmt.Fprintf(&t.decls, "(declare-const %s %s)\n", n, sort)
	fmt.Fprintf(&t.out, "(assert (= %s %s))\n", n, expr)
	t.val[x] = []string{n}
	return n
}

func (t *tr) defineMulti(x ssa.Value, sorts []string, exprs []string) []string {
	var ns []string
	base := len(t.val)
	for i := range exprs {
		n := fmt.Sprintf("v%s%d_%s_%d", t.pfx, base, sanitize(x.Name()), i)
		fmt.Fprintf(&t.decls, "(declare-const %s %s)\n", n, smtSort(sorts[i]))
		fmt.Fprintf(&t.out, "(assert (= %s %s))\n", n, exprs[i])
		ns = append(ns, n)
	}
	t.val[x] = ns
	return ns
}

func (t *tr) opaque(x ssa.Value, why string) {
	ty := x.Type()
	var ns []string
	if tup, ok := ty.(*types.Tuple); ok {
		for i := 0; i < tup.Len(); i++ {
			for _, l := range leaves(tup.At(i).Type()) {
				ns = append(ns, t.fresh("opq", smtSort(l)))
			}
		}
	} else {
		for _, l := range leaves(ty) {
			n := t.fresh("opq", smtSort(l))
			ns = append(ns, n)
		}
		if len(ns) == 1 {
			t.typeFacts("true", ns[0], ty)
		}
	}
	t.val[x] = ns
	t.abstractf("%s", why)
}

// ---------------------------------------------------------------- type facts

func refOf(ls, term string) string {
	switch ls {
	case "loc":
		return "(lref " + term + ")"
	case "slice":
		return "(sref " + term + ")"
	case "iface":
		return "(lref (iloc " + term + "))"
	case "map", "chan":
		return term
	}
	return ""
}

func (t *tr) ptrTypeInvariant(ty types.Type) (int, bool) {
	pt, ok := ty.Underlying().(*types.Pointer)
	if !ok {
		return 0, false
	}
	if _, isStruct := pt.Elem().Underlying().(*types.Struct); !isStruct {
		return 0, false
	}
	nm, isNamed := pt.Elem().(*types.Named)
	if !isNamed {
		return 0, false
	}
	if t.eng.embedded[types.TypeString(nm, nil)] {
		return 0, false
	}
	return t.eng.tag(pt.Elem()), true
}

// typeFactTerm: the type invariant of a value as one formula ("" when there is none); used under quantifiers.
func (t *tr) typeFactTerm(term string, ty types.Type) string {
	var save strings.Builder
	save.WriteString(t.out.String())
	t.out.Reset()
	t.typeFacts("true", term, ty)
	got := t.out.String()
	t.out.Reset()
	t.out.WriteString(save.String())
	var fs []string
	for _, l := range strings.Split(got, "\n") {
		if strings.HasPrefix(l, "(assert ") && strings.HasSuffix(l, ")") {
			fs = append(fs, l[len("(assert "):len(l)-1])
		}
	}
	if len(fs) == 0 {
		return ""
	}
	return "(and " + strings.Join(fs, " ") + ")"
}

func (t *tr) typeFacts(guard, term string, ty types.Type) {
	switch u := ty.Underlying().(type) {
	case *types.Pointer:
		t.assume(guard, fmt.Sprintf("(and (>= (lref %s) 0) (=> (= (lref %s) 0) (= %s nullloc)))", term, term, term))
		if tag, ok := t.ptrTypeInvariant(ty); ok {
			t.assume(guard, fmt.Sprintf("(or (= %s nullloc) (and (= (ltyp %s) %d) (= (lcell %s) 0) (> (lref %s) 0)))", term, term, tag, term, term))
		}
	case *types.Interface:
		t.assume(guard, fmt.Sprintf("(iface_wf %s)", term))
	case *types.Slice:
		t.assume(guard, fmt.Sprintf("(and (<= 0 (soff %s)) (<= 0 (slen %s)) (<= (slen %s) (scap %s)) (<= (scap %s) 72057594037927936) (=> (> (scap %s) 0) (> (sref %s) 0)) (>= (sref %s) 0) (=> (= (sref %s) 0) (= %s nullslice)))", term, term, term, term, term, term, term, term, term, term))
		// typed memory: a []E can only point into an object that holds cells of type E
		if !t.eng.arrayElem[types.TypeString(u.Elem(), nil)] {
			t.assume(guard, fmt.Sprintf("(=> (> (scap %s) 0) (= (styp %s) %d))", term, term, t.eng.sliceTag(ty)))
		} else {
			t.assume(guard, fmt.Sprintf("(=> (> (scap %s) 0) (okslice_%s (styp %s)))", term, t.eng.elemIndex(u.Elem()), term))
		}
	case *types.Map, *types.Chan:
		t.assume(guard, fmt.Sprintf("(>= %s 0)", term))
	case *types.Basic:
		if lo, hi, ok := intRange(ty); ok {
			t.assume(guard, fmt.Sprintf("(and (<= %s %s) (<= %s %s))", lo, term, term, hi))
		}
		if u.Info()&types.IsString != 0 {
			// slen_s >= 0 is a global axiom
		}
	}
}

// ---------------------------------------------------------------- CFG helpers

func (t *tr) isBackEdge(p, b *ssa.BasicBlock) bool { return b.Dominates(p) }

func (t *tr) rpo() []*ssa.BasicBlock {
	seen := map[*ssa.BasicBlock]bool{}
	var post []*ssa.BasicBlock
	var dfs func(b *ssa.BasicBlock)
	dfs = func(b *ssa.BasicBlock) {
		seen[b] = true
		for _, s := range b.Succs {
			if s.Dominates(b) {
				continue
			}
			if !seen[s] {
				dfs(s)
			}
		}
		post = append(post, b)
	}
	dfs(t.fn.Blocks[0])
	if t.fn.Recover != nil && !seen[t.fn.Recover] {
		// recover block only reachable after a recovered panic: not modelled
	}
	for i, j := 0, len(post)-1; i < j; i, j = i+1, j-1 {
		post[i], post[j] = post[j], post[i]
	}
	return post
}

func (t *tr) edgeCond(p, b *ssa.BasicBlock) string {
	rp := t.reach[p]
	last := p.Instrs[len(p.Instrs)-1]
	if iff, ok := last.(*ssa.If); ok {
		c := t.v(iff.Cond)
		if p.Succs[0] == b && p.Succs[1] == b {
			return rp
		}
		if p.Succs[0] == b {
			return fmt.Sprintf("(and %s %s)", rp, c)
		}
		return fmt.Sprintf("(and %s (not %s))", rp, c)
	}
	return rp
}

// findLoops numbers loop headers in source order and computes natural loop bodies.
func (t *tr) findLoops() {
	type hdr struct {
		b   *ssa.BasicBlock
		pos token.Pos
	}
	var hdrs []hdr
	for _, b := range t.fn.Blocks {
		for _, s := range b.Succs {
			if s.Dominates(b) {
				if _, ok := t.loopHdr[s]; !ok {
					t.loopHdr[s] = -1
					t.loopBody[s] = map[*ssa.BasicBlock]bool{s: true}
					hdrs = append(hdrs, hdr{s, token.NoPos})
				}
				// natural loop of back edge b -> s
				body := t.loopBody[s]
				var stack []*ssa.BasicBlock
				if !body[b] {
					body[b] = true
					stack = append(stack, b)
				}
				for len(stack) > 0 {
					n := stack[len(stack)-1]
					stack = stack[:len(stack)-1]
					for _, p := range n.Preds {
						if !body[p] {
							body[p] = true
							stack = append(stack, p)
						}
					}
				}
			}
		}
	}
	for i := range hdrs {
		// position: the smallest position of an instruction in the loop body (the for/range statement comes first in source)
		best := token.NoPos
		for bb := range t.loopBody[hdrs[i].b] {
			for _, ins := range bb.Instrs {
				if p := ins.Pos(); p != token.NoPos && (best == token.NoPos || p < best) {
					best = p
				}
			}
		}
		hdrs[i].pos = best
	}
	sort.Slice(hdrs, func(i, j int) bool {
		if hdrs[i].pos != hdrs[j].pos {
			return hdrs[i].pos < hdrs[j].pos
		}
		return hdrs[i].b.Index < hdrs[j].b.Index
	})
	for i, h := range hdrs {
		t.loopHdr[h.b] = i
	}
}

// ---------------------------------------------------------------- escape analysis of local allocations (flow-insensitive)

func (t *tr) computeEscapes() {
	// taint: value -> set of allocation sites it may point into
	sites := map[ssa.Value]bool{}
	for _, b := range t.fn.Blocks {
		for _, ins := range b.Instrs {
			switch x := ins.(type) {
			case *ssa.Alloc:
				sites[x] = true
			case *ssa.MakeSlice:
				sites[x] = true
			case *ssa.MakeMap:
				sites[x] = true
			case *ssa.Convert:
				if leafSort(x.Type()) == "slice" {
					sites[x] = true
				}
			case *ssa.Call:
				if bi, ok := x.Call.Value.(*ssa.Builtin); ok && bi.Name() == "append" {
					sites[x] = true // the backing array append may allocate
				}
			}
		}
	}
	for s := range sites {
		t.taint[s] = map[ssa.Value]bool{s: true}
	}
	add := func(dst, src ssa.Value) bool {
		ch := false
		for a := range t.taint[src] {
			if t.taint[dst] == nil {
				t.taint[dst] = map[ssa.Value]bool{}
			}
			if !t.taint[dst][a] {
				t.taint[dst][a] = true
				ch = true
			}
		}
		return ch
	}
	for changed := true; changed; {
		changed = false
		for _, b := range t.fn.Blocks {
			for _, ins := range b.Instrs {
				v, isVal := ins.(ssa.Value)
				if !isVal {
					continue
				}
				switch x := ins.(type) {
				case *ssa.FieldAddr:
					changed = add(v, x.X) || changed
				case *ssa.IndexAddr:
					changed = add(v, x.X) || changed
				case *ssa.Slice:
					changed = add(v, x.X) || changed
				case *ssa.MakeInterface:
					changed = add(v, x.X) || changed
				case *ssa.ChangeType:
					changed = add(v, x.X) || changed
				case *ssa.ChangeInterface:
					changed = add(v, x.X) || changed
				case *ssa.Convert:
					changed = add(v, x.X) || changed
				case *ssa.TypeAssert:
					changed = add(v, x.X) || changed
				case *ssa.Extract:
					changed = add(v, x.Tuple) || changed
				case *ssa.Phi:
					for _, e := range x.Edges {
						changed = add(v, e) || changed
					}
				case *ssa.SliceToArrayPointer:
					changed = add(v, x.X) || changed
				case *ssa.Call:
					// append-like builtins return (an alias of) their first argument
					if bi, ok := x.Call.Value.(*ssa.Builtin); ok && bi.Name() == "append" {
						changed = add(v, x.Call.Args[0]) || changed
					}
				}
			}
		}
	}
	t.escEvents = map[ssa.Value][]ssa.Instruction{}
	var curIns ssa.Instruction
	esc := func(v ssa.Value) {
		for a := range t.taint[v] {
			t.escapes[a] = true
			t.escEvents[a] = append(t.escEvents[a], curIns)
		}
	}
	t.computeExt()
	for _, b := range t.fn.Blocks {
		for _, ins := range b.Instrs {
			curIns = ins
			switch x := ins.(type) {
			case *ssa.Store:
				esc(x.Val)
			case *ssa.MapUpdate:
				esc(x.Value)
				esc(x.Key)
			case *ssa.MakeClosure:
				for _, b := range x.Bindings {
					esc(b)
				}
			case *ssa.Return:
				// returned objects are still distinct from everything that existed before
			case *ssa.Send:
				esc(x.X)
			case ssa.CallInstruction:
				cc := x.Common()
				if bi, ok := cc.Value.(*ssa.Builtin); ok {
					if bi.Name() == "append" {
						// appended element values are stored into the backing array
						for _, a := range cc.Args[1:] {
							if leafSort(a.Type()) == "slice" {
								// elements of a (already in memory); the slice header itself is not retained
								continue
							}
							esc(a)
						}
					}
					continue
				}
				fs := t.contractFor(cc)
				retains := true
				if fs != nil && (fs.Pure || !fs.modifiesPointers(t)) && !fs.Havoc {
					retains = false
				}
				if _, isGo := ins.(*ssa.Go); isGo {
					retains = true
				}
				if retains {
					for _, a := range cc.Args {
						esc(a)
					}
					if cc.IsInvoke() {
						esc(cc.Value)
					}
				}
			}
		}
	}
}

// modifiesPointers: may the callee store pointers (of its arguments) into memory the caller can read back?
func (fs *FuncSpec) modifiesPointers(t *tr) bool {
	if fs.Havoc {
		return true
	}
	for _, s := range fs.ModSrc {
		// ghost entries never hold real pointers that are loaded back by SSA instructions
		name := s
		if i := strings.Index(name, "("); i > 0 {
			name = name[:i]
		}
		if _, isGhost := t.eng.specs.Ghosts[strings.TrimSpace(name)]; isGhost {
			continue
		}
		return true
	}
	return false
}

// globalFuncCallee: a call through a package-level func variable that is only assigned in init.
func (t *tr) globalFuncCallee(cc *ssa.CallCommon) (string, *ssa.Function) {
	if cc.IsInvoke() {
		return "", nil
	}
	u, ok := cc.Value.(*ssa.UnOp)
	if !ok {
		return "", nil
	}
	g, ok := u.X.(*ssa.Global)
	if !ok {
		return "", nil
	}
	key := g.Pkg.Pkg.Path() + "." + g.Name()
	if t.eng.globalsWritten[key] {
		return "", nil
	}
	if f := t.eng.globalFuncInit[key]; f != nil {
		return key, f
	}
	return "", nil
}

// concreteRecv: the concrete (pointer) type an interface value is statically known to hold: it is made by MakeInterface
// here, or returned by a static callee all of whose returns make it from the same type (e.g. NewChunkedWriter). nil when
// unknown.
func concreteRecv(v ssa.Value, depth int) types.Type {
	if depth > 4 {
		return nil
	}
	switch x := v.(type) {
	case *ssa.MakeInterface:
		return x.X.Type()
	case *ssa.ChangeInterface:
		return concreteRecv(x.X, depth+1)
	case *ssa.Phi:
		var ty types.Type
		for _, e := range x.Edges {
			et := concreteRecv(e, depth+1)
			if et == nil || (ty != nil && !types.Identical(ty, et)) {
				return nil
			}
			ty = et
		}
		return ty
	case *ssa.Call:
		f := x.Call.StaticCallee()
		if f == nil || len(f.Blocks) == 0 || f.Signature.Results().Len() != 1 {
			return nil
		}
		var ty types.Type
		for _, b := range f.Blocks {
			for _, ins := range b.Instrs {
				r, ok := ins.(*ssa.Return)
				if !ok {
					continue
				}
				et := concreteRecv(r.Results[0], depth+1)
				if et == nil || (ty != nil && !types.Identical(ty, et)) {
					return nil
				}
				ty = et
			}
		}
		return ty
	}
	return nil
}

// devirtualize: the method an invoke call is statically known to reach (pointer receivers only).
func (t *tr) devirtualize(cc *ssa.CallCommon) (*ssa.Function, types.Type) {
	if !cc.IsInvoke() {
		return nil, nil
	}
	ct := concreteRecv(cc.Value, 0)
	if ct == nil {
		return nil, nil
	}
	if _, isPtr := ct.Underlying().(*types.Pointer); !isPtr {
		return nil, nil
	}
	sel := t.prog.MethodSets.MethodSet(ct).Lookup(cc.Method.Pkg(), cc.Method.Name())
	if sel == nil {
		return nil, nil
	}
	fn := t.prog.MethodValue(sel)
	if fn == nil || fn.Synthetic != "" {
		return nil, nil
	}
	// a method that is verified to refine the interface method's contract is called through that contract: the caller
	// reasons about the abstract view only (the representation invariant of the implementation is not its business)
	if fs := t.eng.specs.Funcs[fn.String()]; fs != nil && len(fs.Refines) > 0 {
		if t.eng.specs.Funcs["invoke:"+types.TypeString(cc.Value.Type(), nil)+"."+cc.Method.Name()] != nil {
			return nil, nil
		}
	}
	return fn, ct
}

func (t *tr) contractFor(cc *ssa.CallCommon) *FuncSpec {
	if key, _ := t.globalFuncCallee(cc); key != "" {
		return t.eng.specs.Funcs[key]
	}
	if fn, _ := t.devirtualize(cc); fn != nil {
		if fs := t.eng.specs.Funcs[fn.String()]; fs != nil {
			return fs
		}
	}
	if cc.IsInvoke() {
		return t.eng.specs.Funcs["invoke:"+types.TypeString(cc.Value.Type(), nil)+"."+cc.Method.Name()]
	}
	if sc := cc.StaticCallee(); sc != nil {
		if fs := t.eng.specs.Funcs[sc.String()]; fs != nil {
			return fs
		}
		// generic instantiations and wrappers: try origin
		if o := sc.Origin(); o != nil {
			return t.eng.specs.Funcs[o.String()]
		}
	}
	if k := funcValueKey(cc); k != "" {
		return t.eng.specs.Funcs[k]
	}
	return nil
}

// funcValueKey: for a call of a value of a NAMED function type (not a static callee, not an interface method), the key
// under which an assumed contract for all values of that type may be given ("funcvalue \"pkg.Type\"(params) (results)").
func funcValueKey(cc *ssa.CallCommon) string {
	if cc.IsInvoke() || cc.StaticCallee() != nil {
		return ""
	}
	if n, ok := cc.Value.Type().(*types.Named); ok {
		if _, isSig := n.Underlying().(*types.Signature); isSig {
			return "funcvalue:" + types.TypeString(n, nil)
		}
	}
	return ""
}

// ---------------------------------------------------------------- main walk

func (t *tr) run() (err error) {
	defer func() {
		if r := recover(); r != nil {
			err = fmt.Errorf("translator panic in %s: %v", t.fnKey, r)
		}
	}()
	fn := t.fn
	if len(fn.Blocks) == 0 {
		return fmt.Errorf("%s has no body", t.fnKey)
	}
	t.findLoops()
	t.computeEscapes()
	t.computeCallOrdinals()

	cur := map[string]string{}
	// parameters
	for i, p := range fn.Params {
		if t.parent != nil {
			break // inlined: parameters are bound to the argument terms by the caller
		}
		lv := leaves(p.Type())
		var ns []string
		for j, ls := range lv {
			n := fmt.Sprintf("p%d_%s", i, sanitize(p.Name()))
			if len(lv) > 1 {
				n = fmt.Sprintf("%s_%d", n, j)
			}
			fmt.Fprintf(&t.decls, "(declare-const %s %s)\n", n, smtSort(ls))
			ns = append(ns, n)
			if r := refOf(ls, n); r != "" {
				t.regPtr(r)
				t.assume("", fmt.Sprintf("(existed %s)", r))
			}
		}
		t.val[p] = ns
		if len(ns) == 1 {
			t.typeFacts("true", ns[0], p.Type())
		} else {
			t.compositeTypeFacts("true", ns, p.Type())
		}
	}
	for _, fv := range fn.FreeVars {
		if t.parent != nil {
			break
		}
		n := "fv_" + sanitize(fv.Name())
		fmt.Fprintf(&t.decls, "(declare-const %s Loc)\n", n)
		t.val[fv] = []string{n}
		t.assume("", fmt.Sprintf("(and (> (lref %s) 0) (existed (lref %s)))", n, n)) // a captured variable's cell always exists
		t.regPtr("(lref " + n + ")")
	}
	if t.parent != nil {
		cur = t.parent.oldHeaps
	}
	t.oldHeaps = cur // entry heaps: filled lazily with v0 versions (never overwritten: blocks copy)
	t.entryEnv = t.ownEnv(nil)
	if t.own != nil {
		t.refinesPre()
		for _, r := range t.own.Requires {
			term, e := t.evalAssume(r.Expr, t.entryEnv, t.entryHeaps(), t.entryHeaps())
			if e != nil {
				t.fatalf("requires %s (%s): %v", r.Label, r.Where, e)
				continue
			}
			t.assume("true", term)
		}
	}

	order := t.rpo()
	for _, b := range order {
		if t.stopped {
			break
		}
		t.curBlock = b
		var heaps map[string]string
		if b == fn.Blocks[0] {
			t.reach[b] = "true"
			heaps = map[string]string{}
			if t.parent != nil {
				t.reach[b] = t.entryReach
				heaps = copyMap(t.entryHeapsInl)
			}
		} else {
			var edges []string
			var predHeaps []map[string]string
			for _, p := range b.Preds {
				if t.isBackEdge(p, b) {
					continue
				}
				if _, done := t.reach[p]; !done {
					continue
				}
				edges = append(edges, t.edgeCond(p, b))
				predHeaps = append(predHeaps, t.heapAt[p])
			}
			rb := fmt.Sprintf("R_%s%d", t.pfx, b.Index)
			fmt.Fprintf(&t.decls, "(declare-const %s Bool)\n", rb)
			if len(edges) == 0 {
				fmt.Fprintf(&t.out, "(assert (= %s false))\n", rb)
			} else if len(edges) == 1 {
				fmt.Fprintf(&t.out, "(assert (= %s %s))\n", rb, edges[0])
			} else {
				fmt.Fprintf(&t.out, "(assert (= %s (or %s)))\n", rb, strings.Join(edges, " "))
			}
			t.reach[b] = rb
			heaps = t.mergeHeaps(edges, predHeaps)
		}
		if k, isHdr := t.loopHdr[b]; isHdr && k >= 0 {
			heaps = t.cutLoop(b, k, heaps)
		}
		t.heapIn[b] = copyMap(heaps)
		t.block(b, heaps)
		t.heapAt[b] = heaps
	}
	return nil
}

// entryHeaps: a view where every heap is at version 0 (filled lazily by H; never assigned new versions).
func (t *tr) entryHeaps() map[string]string { return t.oldHeaps }

func (t *tr) mergeHeaps(edges []string, predHeaps []map[string]string) map[string]string {
	heaps := map[string]string{}
	if len(predHeaps) == 0 {
		return heaps
	}
	names := map[string]bool{}
	for _, ph := range predHeaps {
		for h := range ph {
			names[h] = true
		}
	}
	var sorted []string
	for h := range names {
		sorted = append(sorted, h)
	}
	sort.Strings(sorted)
	for _, h := range sorted {
		same := true
		first := t.H(predHeaps[0], h)
		for _, ph := range predHeaps {
			if t.H(ph, h) != first {
				same = false
			}
		}
		if same {
			heaps[h] = first
			continue
		}
		expr := t.H(predHeaps[len(predHeaps)-1], h)
		for i := len(predHeaps) - 2; i >= 0; i-- {
			expr = fmt.Sprintf("(ite %s %s %s)", edges[i], t.H(predHeaps[i], h), expr)
		}
		t.setHeap(heaps, h, expr)
	}
	return heaps
}

func copyMap(m map[string]string) map[string]string {
	o := make(map[string]string, len(m))
	for k, v := range m {
		o[k] = v
	}
	return o
}

func (t *tr) compositeTypeFacts(guard string, terms []string, ty types.Type) {
	i := 0
	var walk func(ty types.Type)
	walk = func(ty types.Type) {
		if leafSort(ty) != "" {
			if i < len(terms) {
				t.typeFacts(guard, terms[i], ty)
			}
			i++
			return
		}
		switch u := ty.Underlying().(type) {
		case *types.Struct:
			for f := 0; f < u.NumFields(); f++ {
				walk(u.Field(f).Type())
			}
		case *types.Array:
			for k := int64(0); k < u.Len(); k++ {
				walk(u.Elem())
			}
		case *types.Tuple:
			for k := 0; k < u.Len(); k++ {
				walk(u.At(k).Type())
			}
		}
	}
	walk(ty)
}

// ---------------------------------------------------------------- loops

type modSet struct {
	all  map[string]bool         // heap name -> whole heap may change
	tags map[string]map[int]bool // heap name -> allocation types whose objects may change
}

func newModSet() *modSet { return &modSet{all: map[string]bool{}, tags: map[string]map[int]bool{}} }

func (m *modSet) addAll(h string) { m.all[h] = true }
func (m *modSet) addTag(h string, tag int) {
	if m.tags[h] == nil {
		m.tags[h] = map[int]bool{}
	}
	m.tags[h][tag] = true
}

// staticTagOfAddr: allocation type of the object an address points into, when statically known.
func (t *tr) staticTagOfAddr(a ssa.Value) (int, bool) {
	switch x := a.(type) {
	case *ssa.FieldAddr:
		if tag, ok := t.ptrTypeInvariant(x.X.Type()); ok {
			return tag, true
		}
		return t.staticTagOfAddr(x.X)
	case *ssa.IndexAddr:
		if _, isPtr := x.X.Type().Underlying().(*types.Pointer); isPtr {
			return t.staticTagOfAddr(x.X)
		}
		return 0, false
	case *ssa.Alloc:
		return t.eng.tag(x.Type().(*types.Pointer).Elem()), true
	case *ssa.Global:
		return t.eng.tag(x.Type().(*types.Pointer).Elem()), true
	}
	if tag, ok := t.ptrTypeInvariant(a.Type()); ok {
		return tag, true
	}
	return 0, false
}

func (t *tr) loopMods(h *ssa.BasicBlock) *modSet {
	m := newModSet()
	for b := range t.loopBody[h] {
		for _, ins := range b.Instrs {
			switch x := ins.(type) {
			case *ssa.Store:
				for _, ls := range uniq(leaves(x.Val.Type())) {
					if tag, ok := t.staticTagOfAddr(x.Addr); ok {
						m.addTag("H_"+ls, tag)
					} else {
						m.addAll("H_" + ls)
					}
				}
				// a ghost assignment attached to this store writes its ghost in the loop as well
				if t.own != nil && t.parent == nil {
					if fn := storedFieldName(x); fn != "" {
						for _, gs := range t.own.GhostSets {
							if gs.Store == fn && gs.N == t.storeOrd[ins] {
								m.addAll("G_" + gs.Ghost)
							}
						}
					}
				}
			case *ssa.MapUpdate:
				mt := x.Map.Type().Underlying().(*types.Map)
				ks, vs := leafSort(mt.Key()), leafSort(mt.Elem())
				m.addAll("MD_" + ks)
				if vs != "" {
					m.addAll("MV_" + ks + "_" + vs)
				}
				m.addAll("ML")
			case *ssa.Defer:
				m.addAll(t.deferFlagName(x))
			case ssa.CallInstruction:
				t.callMods(x, m)
				if t.own != nil && t.parent == nil {
					if _, isB := x.Common().Value.(*ssa.Builtin); !isB {
						name := t.calleeName(x.Common())
						for _, gs := range t.own.GhostSets {
							if gs.Callee != "" && gs.N == t.callOrd[ins] && (name == gs.Callee || strings.HasSuffix(name, "."+gs.Callee) || strings.HasSuffix(name, ")."+gs.Callee)) {
								m.addAll("G_" + gs.Ghost)
							}
						}
					}
				}
			}
		}
	}
	return m
}

func uniq(l []string) []string {
	seen := map[string]bool{}
	var out []string
	for _, s := range l {
		if !seen[s] {
			seen[s] = true
			out = append(out, s)
		}
	}
	return out
}

var realHeapSorts = []string{"int", "bool", "str", "loc", "slice", "iface", "func", "f64", "f32", "map", "chan"}

func (t *tr) havocAllReal(m *modSet) {
	for _, s := range realHeapSorts {
		m.addAll("H_" + s)
	}
	for h := range t.heapSorts {
		if strings.HasPrefix(h, "M") {
			m.addAll(h)
		}
	}
}

// callMods over-approximates what a call inside a loop may modify (heap granularity).
func (t *tr) callMods(x ssa.CallInstruction, m *modSet) {
	cc := x.Common()
	if bi, ok := cc.Value.(*ssa.Builtin); ok {
		switch bi.Name() {
		case "append", "copy":
			var el types.Type
			if st, ok := cc.Args[0].Type().Underlying().(*types.Slice); ok {
				el = st.Elem()
			}
			if el != nil {
				for _, ls := range uniq(leaves(el)) {
					m.addAll("H_" + ls)
				}
			}
		case "delete":
			mt := cc.Args[0].Type().Underlying().(*types.Map)
			m.addAll("MD_" + leafSort(mt.Key()))
			m.addAll("ML")
		}
		return
	}
	fs := t.contractFor(cc)
	if fs == nil {
		t.havocAllReal(m)
		if _, ok := t.eng.specs.Ghosts["callcount"]; ok && cc.StaticCallee() == nil && !cc.IsInvoke() {
			m.addAll("G_callcount")
		}
		if sc := cc.StaticCallee(); sc != nil && t.isHC(sc) {
			for _, g := range t.eng.specs.GhostOrder {
				m.addAll("G_" + g)
			}
		}
		return
	}
	if fs.Pure {
		return
	}
	if fs.Havoc {
		t.havocAllReal(m)
		return
	}
	for i, e := range fs.Modifies {
		_ = i
		for _, h := range t.modItemHeaps(fs, e) {
			m.addAll(h)
		}
	}
}

func (t *tr) isHC(f *ssa.Function) bool {
	p := f.Pkg
	if p == nil && f.Parent() != nil {
		p = f.Parent().Pkg
	}
	if p == nil && f.Origin() != nil {
		p = f.Origin().Pkg
	}
	return p != nil && strings.HasPrefix(p.Pkg.Path(), "github.com/brutella/hc")
}

func (t *tr) cutLoop(b *ssa.BasicBlock, k int, entry map[string]string) map[string]string {
	var ls *LoopSpec
	if t.own != nil {
		ls = t.own.Loops[k]
	}
	if ls == nil {
		ls = &LoopSpec{Ordinal: k}
		if t.own != nil {
			t.abstractf("loop %d has no invariant (state it writes is havoced)", k)
		}
	}
	rEntry := t.reach[b]
	// 1. initiation: phis take their entry-edge values
	entryVals := map[ssa.Value][]string{}
	for _, ins := range b.Instrs {
		phi, ok := ins.(*ssa.Phi)
		if !ok {
			continue
		}
		var terms [][]string
		var conds []string
		for i, p := range b.Preds {
			if t.isBackEdge(p, b) {
				continue
			}
			if _, done := t.reach[p]; !done {
				continue
			}
			terms = append(terms, t.vals(phi.Edges[i]))
			conds = append(conds, t.edgeCond(p, b))
		}
		n := len(terms[0])
		es := make([]string, n)
		for c := 0; c < n; c++ {
			e := terms[len(terms)-1][c]
			for i := len(terms) - 2; i >= 0; i-- {
				e = fmt.Sprintf("(ite %s %s %s)", conds[i], terms[i][c], e)
			}
			es[c] = e
		}
		entryVals[phi] = es
	}
	for _, inv := range ls.Invariants {
		env := t.loopEnv(b, entryVals)
		term, err := t.evalGoal(inv.Expr, env, entry, t.oldHeaps)
		if err != nil {
			t.fatalf("loop %d invariant %s (%s): %v", k, inv.Label, inv.Where, err)
			continue
		}
		t.oblige("loop", fmt.Sprintf("loop[%d].init/%s", k, inv.Label), rEntry, term, b.Instrs[0].Pos())
	}
	// 2. havoc
	rh := fmt.Sprintf("R_%s%d_iter", t.pfx, b.Index)
	fmt.Fprintf(&t.decls, "(declare-const %s Bool)\n", rh)
	t.assume("", fmt.Sprintf("(=> %s %s)", rh, rEntry))
	t.reach[b] = rh
	mods := t.loopMods(b)
	heaps := copyMap(entry)
	var hs []string
	for h := range mods.all {
		hs = append(hs, h)
	}
	for h := range mods.tags {
		if !mods.all[h] {
			hs = append(hs, h)
		}
	}
	sort.Strings(hs)
	for _, h := range hs {
		old := t.H(entry, h)
		nw := t.newHeap(h)
		heaps[h] = nw
		if !mods.all[h] {
			// only objects of the listed allocation types may differ
			expr := old
			var tags []int
			for tag := range mods.tags[h] {
				tags = append(tags, tag)
			}
			sort.Ints(tags)
			for _, tag := range tags {
				expr = fmt.Sprintf("(store %s %d (select %s %d))", expr, tag, nw, tag)
			}
			t.assume("", fmt.Sprintf("(= %s %s)", nw, expr))
		}
	}
	for _, ins := range b.Instrs {
		if phi, ok := ins.(*ssa.Phi); ok {
			lv := leaves(phi.Type())
			var ns []string
			for _, l := range lv {
				n := t.fresh("phi_"+sanitize(phi.Comment), smtSort(l))
				ns = append(ns, n)
			}
			t.val[phi] = ns
			if len(ns) == 1 {
				t.typeFacts("true", ns[0], phi.Type())
				// objects allocated in the loop body are distinct from whatever the loop variables refer to at the header
				if r := refOf(lv[0], ns[0]); r != "" {
					t.regPtr(r)
				}
			} else {
				t.compositeTypeFacts("true", ns, phi.Type())
			}
		}
	}
	for _, inv := range ls.Invariants {
		env := t.loopEnv(b, nil)
		term, err := t.evalAssume(inv.Expr, env, heaps, t.oldHeaps)
		if err != nil {
			continue // reported above
		}
		t.assume(rh, term)
	}
	lc := &loopCut{ls: ls, k: k, havoced: map[string]bool{}}
	for _, h := range hs {
		lc.havoced[h] = true
	}
	if t.own != nil && !t.own.Havoc {
		t.frameAssume(heaps, rh, lc.havoced)
	}
	if ls.Decreases != nil {
		env := t.loopEnv(b, nil)
		v, err := t.evalInt(ls.Decreases.Expr, env, heaps, t.oldHeaps)
		if err != nil {
			t.fatalf("loop %d decreases: %v", k, err)
		} else {
			d0 := t.fresh("decr0", "Int")
			t.assume("", fmt.Sprintf("(= %s %s)", d0, v))
			lc.decr0 = d0
		}
	}
	t.loopState[b] = lc
	return heaps
}

// backEdge emits the preservation obligations when control returns to header s from block b.
func (t *tr) backEdge(b, s *ssa.BasicBlock, heaps map[string]string, pos token.Pos) {
	st, ok := t.loopState[s]
	if !ok {
		return
	}
	cond := t.edgeCond(b, s)
	phiVals := map[ssa.Value][]string{}
	for _, pi := range s.Instrs {
		if phi, ok := pi.(*ssa.Phi); ok {
			for i, p := range s.Preds {
				if p == b {
					phiVals[phi] = t.vals(phi.Edges[i])
				}
			}
		}
	}
	for _, inv := range st.ls.Invariants {
		env := t.loopEnv(s, phiVals)
		term, err := t.evalGoal(inv.Expr, env, heaps, t.oldHeaps)
		if err != nil {
			t.fatalf("loop %d invariant %s at back edge: %v", st.k, inv.Label, err)
			continue
		}
		t.oblige("loop", fmt.Sprintf("loop[%d].keep/%s", st.k, inv.Label), cond, term, pos)
	}
	if t.own != nil && !t.own.Havoc {
		t.frameObligations(heaps, cond, fmt.Sprintf("loop[%d].keep", st.k), pos, st.havoced)
	}
	if st.ls.Decreases != nil && st.decr0 != "" {
		env := t.loopEnv(s, phiVals)
		v, err := t.evalInt(st.ls.Decreases.Expr, env, heaps, t.oldHeaps)
		if err == nil {
			t.oblige("loop", fmt.Sprintf("loop[%d].decr", st.k), cond, fmt.Sprintf("(and (>= %s 0) (< %s %s))", st.decr0, v, st.decr0), pos)
		}
	}
}

// refinesPre: behavioural subtyping, precondition half. Each `requires` of the implementation must follow from the
// interface method's `requires` (read through the ghost abstractions). Clauses that are object invariants (typeinv)
// are exempt: they hold at every interface call by the constructor/preservation/writers argument.
func (t *tr) refinesPre() {
	for _, key := range t.own.Refines {
		ifs := t.eng.specs.Funcs["invoke:"+key]
		if ifs == nil || len(ifs.Params) != len(t.fn.Params) {
			continue
		}
		renv := &senv{t: t, vars: map[string]*sv{}, lets: map[string]ast.Expr{}, pkg: t.pkg, abstract: true}
		for i, p := range t.fn.Params {
			renv.vars[ifs.Params[i]] = t.svOfTerms(t.val[p], p.Type())
		}
		var hyps []string
		for _, r := range ifs.Requires {
			term, err := t.evalAssume(r.Expr, renv, t.oldHeaps, t.oldHeaps)
			if err != nil {
				t.fatalf("refines %s requires %s: %v", key, r.Label, err)
				continue
			}
			hyps = append(hyps, term)
		}
		// the receiver of an interface call is never nil, and its dynamic type is this implementation
		if len(t.fn.Params) > 0 && leafSort(t.fn.Params[0].Type()) == "loc" {
			hyps = append(hyps, fmt.Sprintf("(not (= %s nullloc))", t.val[t.fn.Params[0]][0]))
		}
		hyp := "true"
		if len(hyps) > 0 {
			hyp = "(and " + strings.Join(hyps, " ") + ")"
		}
		for _, r := range t.own.Requires {
			exempt := false
			ast.Inspect(r.Expr, func(n ast.Node) bool {
				if ce, ok := n.(*ast.CallExpr); ok {
					if id, ok := ce.Fun.(*ast.Ident); ok && t.eng.specs.TypeInvs[id.Name] {
						exempt = true
					}
				}
				return true
			})
			if exempt {
				t.abstractf("object invariant in %s assumed at interface calls (%s)", r.Label, key)
				continue
			}
			term, err := t.evalGoal(r.Expr, t.entryEnv, t.oldHeaps, t.oldHeaps)
			if err != nil {
				continue
			}
			t.oblige("refines", fmt.Sprintf("refines/%s.pre/%s", shortName(key), r.Label), "true", fmt.Sprintf("(=> %s %s)", hyp, term), t.fn.Pos())
		}
	}
}

// computeCallOrdinals numbers the calls of each callee in source order (stable under block reordering).
func (t *tr) computeCallOrdinals() {
	t.callOrd = map[ssa.Instruction]int{}
	by := map[string][]ssa.Instruction{}
	for _, b := range t.fn.Blocks {
		for _, ins := range b.Instrs {
			c, ok := ins.(ssa.CallInstruction)
			if !ok {
				continue
			}
			cc := c.Common()
			if _, isB := cc.Value.(*ssa.Builtin); isB {
				continue
			}
			by[t.calleeName(cc)] = append(by[t.calleeName(cc)], ins)
		}
	}
	// A call of a helper without contract is translated by inlining its body: the calls inside that body count as calls of
	// this function at the helper call's position ("alias" occurrences), so that a lemma attached to `callee#n` still binds
	// after the callee's call was moved into a helper (evaluated just before the helper call).
	t.callAlias = map[ssa.Instruction]map[string]int{}
	alias := map[string][]ssa.Instruction{}
	if t.parent == nil {
		var inner func(fn *ssa.Function, depth int, out map[string]bool)
		inner = func(fn *ssa.Function, depth int, out map[string]bool) {
			if fn == nil || depth > 2 || len(fn.Blocks) == 0 {
				return
			}
			for _, b := range fn.Blocks {
				for _, ins := range b.Instrs {
					c, ok := ins.(ssa.CallInstruction)
					if !ok {
						continue
					}
					cc := c.Common()
					if _, isB := cc.Value.(*ssa.Builtin); isB {
						continue
					}
					out[t.calleeName(cc)] = true
					if sc := cc.StaticCallee(); sc != nil && t.contractFor(cc) == nil && sc.Pkg != nil && strings.HasPrefix(sc.Pkg.Pkg.Path(), hcPath) {
						inner(sc, depth+1, out)
					}
				}
			}
		}
		for _, b := range t.fn.Blocks {
			for _, ins := range b.Instrs {
				c, ok := ins.(ssa.CallInstruction)
				if !ok {
					continue
				}
				cc := c.Common()
				sc := cc.StaticCallee()
				if sc == nil || sc.Pkg == nil || !strings.HasPrefix(sc.Pkg.Pkg.Path(), hcPath) || t.contractFor(cc) != nil {
					continue
				}
				names := map[string]bool{}
				inner(sc, 1, names)
				for n := range names {
					alias[n] = append(alias[n], ins)
				}
			}
		}
	}
	names := map[string]bool{}
	for n := range by {
		names[n] = true
	}
	for n := range alias {
		names[n] = true
	}
	for n := range names {
		type occ struct {
			ins   ssa.Instruction
			alias bool
		}
		var l []occ
		for _, ins := range by[n] {
			l = append(l, occ{ins, false})
		}
		for _, ins := range alias[n] {
			l = append(l, occ{ins, true})
		}
		sort.SliceStable(l, func(i, j int) bool { return l[i].ins.Pos() < l[j].ins.Pos() })
		for i, o := range l {
			if o.alias {
				if t.callAlias[o.ins] == nil {
					t.callAlias[o.ins] = map[string]int{}
				}
				t.callAlias[o.ins][n] = i + 1
			} else {
				t.callOrd[o.ins] = i + 1
			}
		}
	}
	// stores to struct fields, numbered per field name in source order (attachment points of ghostset clauses)
	t.storeOrd = map[ssa.Instruction]int{}
	sby := map[string][]ssa.Instruction{}
	for _, b := range t.fn.Blocks {
		for _, ins := range b.Instrs {
			if st, ok := ins.(*ssa.Store); ok {
				if fn := storedFieldName(st); fn != "" {
					sby[fn] = append(sby[fn], ins)
				}
			}
		}
	}
	for _, l := range sby {
		sort.SliceStable(l, func(i, j int) bool { return l[i].Pos() < l[j].Pos() })
		for i, ins := range l {
			t.storeOrd[ins] = i + 1
		}
	}
}

// storedFieldName: the name of the struct field a store writes ("" when the target is not a field).
func storedFieldName(st *ssa.Store) string {
	fa, ok := st.Addr.(*ssa.FieldAddr)
	if !ok {
		return ""
	}
	pt, ok := fa.X.Type().Underlying().(*types.Pointer)
	if !ok {
		return ""
	}
	stt, ok := pt.Elem().Underlying().(*types.Struct)
	if !ok || fa.Field >= stt.NumFields() {
		return ""
	}
	return stt.Field(fa.Field).Name()
}

// applyGhostSet executes a ghostset clause at the current point (env: the source variables in scope there).
func (t *tr) applyGhostSet(gs GhostSet, env *senv, R string, heaps map[string]string) {
	g := t.eng.specs.Ghosts[gs.Ghost]
	if g == nil || len(g.Keys) != len(gs.Keys) {
		t.fatalf("ghostset %s (%s): ghost %s with %d key(s) expected", gs.Label, gs.Where, gs.Ghost, len(gs.Keys))
		return
	}
	c := &evalCtx{t: t, env: env, cur: heaps, old: t.oldHeaps}
	var keys []string
	var val string
	failed := false
	func() {
		defer func() {
			if r := recover(); r != nil {
				t.fatalf("ghostset %s (%s): %v", gs.Label, gs.Where, r)
				failed = true
			}
		}()
		for i, k := range gs.Keys {
			keys = append(keys, c.ghostKey(g.Keys[i], c.eval(k)))
		}
		val = c.coerce(c.eval(gs.Val), g.Val)
	}()
	if failed {
		return
	}
	h := "G_" + gs.Ghost
	old := t.H(heaps, h)
	var upd func(arr string, ks []string) string
	upd = func(arr string, ks []string) string {
		if len(ks) == 1 {
			return fmt.Sprintf("(store %s %s %s)", arr, ks[0], val)
		}
		return fmt.Sprintf("(store %s %s %s)", arr, ks[0], upd(fmt.Sprintf("(select %s %s)", arr, ks[0]), ks[1:]))
	}
	t.setHeap(heaps, h, fmt.Sprintf("(ite %s %s %s)", R, upd(old, keys), old))
	if t.ghostSetSeen == nil {
		t.ghostSetSeen = map[string]bool{}
	}
	t.ghostSetSeen[gs.Label] = true
}

func (t *tr) calleeName(cc *ssa.CallCommon) string {
	if fn, _ := t.devirtualize(cc); fn != nil {
		return fn.String()
	}
	switch {
	case cc.IsInvoke():
		return "invoke:" + types.TypeString(cc.Value.Type(), nil) + "." + cc.Method.Name()
	case cc.StaticCallee() != nil:
		return cc.StaticCallee().String()
	}
	if k, _ := t.globalFuncCallee(cc); k != "" {
		return k
	}
	return "<dynamic>"
}

// computeExt: ext[v] - v may reference an object that was not allocated by this invocation of the function (a
// parameter, something loaded from memory, a call result ...). Values with ext false point only into the allocation
// sites recorded in taint[v].
func (t *tr) computeExt() {
	t.ext = map[ssa.Value]bool{}
	get := func(v ssa.Value) bool {
		switch x := v.(type) {
		case *ssa.Const:
			return false
		case *ssa.Parameter, *ssa.FreeVar, *ssa.Global, *ssa.Function, *ssa.Builtin:
			_ = x
			return true
		}
		return t.ext[v]
	}
	for changed := true; changed; {
		changed = false
		for _, b := range t.fn.Blocks {
			for _, ins := range b.Instrs {
				v, isVal := ins.(ssa.Value)
				if !isVal || t.ext[v] {
					continue
				}
				e := true
				switch x := ins.(type) {
				case *ssa.Alloc, *ssa.MakeSlice, *ssa.MakeMap, *ssa.MakeChan:
					e = false
				case *ssa.FieldAddr:
					e = get(x.X)
				case *ssa.IndexAddr:
					e = get(x.X)
				case *ssa.Slice:
					e = get(x.X)
				case *ssa.MakeInterface:
					e = get(x.X)
				case *ssa.ChangeType:
					e = get(x.X)
				case *ssa.ChangeInterface:
					e = get(x.X)
				case *ssa.Convert:
					if leafSort(x.Type()) == "slice" {
						if _, fromStr := x.X.Type().Underlying().(*types.Basic); fromStr {
							e = false // string -> []byte: a fresh array
							break
						}
					}
					e = get(x.X)
				case *ssa.SliceToArrayPointer:
					e = get(x.X)
				case *ssa.Phi:
					e = false
					for _, ed := range x.Edges {
						if get(ed) {
							e = true
						}
					}
				case *ssa.Call:
					if bi, ok := x.Call.Value.(*ssa.Builtin); ok && bi.Name() == "append" {
						e = get(x.Call.Args[0])
					}
				}
				if e {
					t.ext[v] = true
					changed = true
				}
			}
		}
	}
	// CFG reachability
	t.breach = map[*ssa.BasicBlock]map[*ssa.BasicBlock]bool{}
	for _, b := range t.fn.Blocks {
		seen := map[*ssa.BasicBlock]bool{}
		var dfs func(x *ssa.BasicBlock)
		dfs = func(x *ssa.BasicBlock) {
			for _, s := range x.Succs {
				if !seen[s] {
					seen[s] = true
					dfs(s)
				}
			}
		}
		dfs(b)
		t.breach[b] = seen
	}
}

func instrIndex(ins ssa.Instruction) int {
	for i, x := range ins.Block().Instrs {
		if x == ins {
			return i
		}
	}
	return -1
}

// mayPrecede: can instruction e execute before instruction c in one invocation?
func (t *tr) mayPrecede(e, c ssa.Instruction) bool {
	if e.Block() == c.Block() && instrIndex(e) < instrIndex(c) {
		return true
	}
	return t.breach[e.Block()][c.Block()]
}

// preservePrivate: a callee cannot reach objects that this invocation allocated and that have not escaped before the
// call (never stored into memory, captured, sent or passed to a retaining callee) and are not passed to it. Their
// contents survive the call whatever its modifies clause says. pre/post are the heap versions around the call.
func (t *tr) preservePrivate(ins ssa.Instruction, cc *ssa.CallCommon, R string, pre, post map[string]string) {
	if t.parent != nil || t.ext == nil {
		return
	}
	changed := map[string]bool{}
	for h, v := range post {
		if strings.HasPrefix(h, "H_") && pre[h] != "" && pre[h] != v {
			changed[h] = true
		}
	}
	if len(changed) == 0 {
		return
	}
	passed := map[ssa.Value]bool{}
	for _, a := range cc.Args {
		for s := range t.taint[a] {
			passed[s] = true
		}
	}
	for s := range t.taint[cc.Value] {
		passed[s] = true
	}
	cb := ins.Block()
	var cands []ssa.Value
	for v := range t.val {
		ls := leafSort(v.Type())
		if ls != "loc" && ls != "slice" {
			continue
		}
		if t.ext[v] || len(t.taint[v]) == 0 {
			continue
		}
		vi, ok := v.(ssa.Instruction)
		if !ok || vi.Block() == nil || vi.Parent() != t.fn {
			continue
		}
		if vi.Block() == cb {
			if instrIndex(vi) >= instrIndex(ins) {
				continue
			}
		} else if !vi.Block().Dominates(cb) {
			continue
		}
		okv := true
		for s := range t.taint[v] {
			if passed[s] {
				okv = false
				break
			}
			for _, e := range t.escEvents[s] {
				if e == ins || t.mayPrecede(e, ins) {
					okv = false
					break
				}
			}
			if !okv {
				break
			}
		}
		if okv {
			cands = append(cands, v)
		}
	}
	sort.Slice(cands, func(i, j int) bool { return cands[i].Name() < cands[j].Name() })
	done := map[string]bool{}
	for _, v := range cands {
		term := t.val[v][0]
		var typ, ref string
		var content types.Type
		switch u := v.Type().Underlying().(type) {
		case *types.Pointer:
			a, b, _ := locParts(term)
			typ, ref, content = a, b, u.Elem()
			if tag, ok := t.ptrTypeInvariant(v.Type()); ok {
				typ = fmt.Sprint(tag)
			}
		case *types.Slice:
			typ, ref, content = "(styp "+term+")", "(sref "+term+")", u.Elem()
			if tc := t.sliceTagConst(v.Type()); tc != "" {
				typ = tc
			}
		default:
			continue
		}
		for _, ls := range uniq(leaves(content)) {
			h := "H_" + ls
			if !changed[h] {
				continue
			}
			key := h + "|" + typ + "|" + ref
			if done[key] {
				continue
			}
			done[key] = true
			t.assume(R, fmt.Sprintf("(=> (not (= %s 0)) (= (select (select %s %s) %s) (select (select %s %s) %s)))", ref, post[h], typ, ref, pre[h], typ, ref))
		}
	}
	if len(cands) > 0 {
		t.abstractf("FRAME: objects allocated by the function and not escaped before a call are unchanged by it (escape analysis)")
	}
}
