package main

// Spec expression compiler: Go expression syntax (go/parser) + call-shaped extensions -> SMT terms over the
// heap model of trans.go.

import (
	"os"
	"fmt"
	"go/ast"
	"go/constant"
	"go/token"
	"go/types"
	"regexp"
	"sort"
	"strconv"
	"strings"

	"golang.org/x/tools/go/ssa"
)

type sv struct {
	ty     types.Type // Go type when known
	sort   string     // leaf sort ("" for composite)
	terms  []string
	addr   string // lvalue address (Loc term) when the value lives in memory
	nilLit bool
	untypedInt bool
}

func (v *sv) term() string {
	if len(v.terms) != 1 {
		panic(fmt.Sprintf("spec value has %d components", len(v.terms)))
	}
	return v.terms[0]
}

type senv struct {
	t      *tr
	vars   map[string]*sv
	lets   map[string]ast.Expr
	letEnv *senv
	hdr    *ssa.BasicBlock // loop header for source-level name resolution
	phiOv  map[ssa.Value][]string
	pkg    *types.Package
	fn     *ssa.Function // function whose locals may be named (own function only)
	bound  map[string]bool
	depth  int
	callerEpoch int     // allocation clock of the caller just before the call
	callerPtrs []string // non-nil when a callee contract is instantiated at a call site: fresh(x) also means distinct from these
	callerSide bool
	inQuant    bool
	upto       int  // >= 0: names are resolved at instruction index upto of block hdr (assert clauses); -1: at a loop header
	abstractAs types.Type // with abstract: interface-typed abstraction arguments denote implementation objects of this pointer type
	abstract   bool // refinement mode: ghosts that have an abstraction are replaced by their definition
}

func (e *senv) child() *senv {
	c := *e
	c.vars = map[string]*sv{}
	for k, v := range e.vars {
		c.vars[k] = v
	}
	return &c
}

func leafSV(sort, term string, ty types.Type) *sv {
	return &sv{ty: ty, sort: sort, terms: []string{term}}
}

func (t *tr) svOfTerms(terms []string, ty types.Type) *sv {
	ls := leafSort(ty)
	return &sv{ty: ty, sort: ls, terms: terms}
}

// ownEnv binds the header names of the function's own contract to its parameters (and results).
func (t *tr) ownEnv(results [][]string) *senv {
	env := &senv{t: t, vars: map[string]*sv{}, lets: map[string]ast.Expr{}, pkg: t.pkg, fn: t.fn}
	if t.own == nil {
		return env
	}
	fs := t.own
	if len(fs.Params) != len(t.fn.Params) {
		t.fatalf("contract header of %s names %d parameters, function has %d", t.fnKey, len(fs.Params), len(t.fn.Params))
	}
	for i, p := range t.fn.Params {
		if i < len(fs.Params) {
			env.vars[fs.Params[i]] = t.svOfTerms(t.val[p], p.Type())
		}
	}
	for _, fv := range t.fn.FreeVars {
		el := fv.Type().(*types.Pointer).Elem()
		env.vars[fv.Name()] = &sv{ty: el, sort: leafSort(el), addr: t.val[fv][0]}
	}
	sig := t.fn.Signature
	if results != nil {
		if len(fs.Results) != sig.Results().Len() {
			t.fatalf("contract header of %s names %d results, function has %d", t.fnKey, len(fs.Results), sig.Results().Len())
		}
		for i := 0; i < sig.Results().Len() && i < len(fs.Results) && i < len(results); i++ {
			env.vars[fs.Results[i]] = t.svOfTerms(results[i], sig.Results().At(i).Type())
		}
	}
	for _, l := range fs.Lets {
		env.lets[l.Name] = l.Expr
	}
	env.letEnv = env
	return env
}

func (t *tr) loopEnv(hdr *ssa.BasicBlock, phiOv map[ssa.Value][]string) *senv {
	env := t.ownEnv(nil)
	env.hdr = hdr
	env.phiOv = phiOv
	env.upto = -1
	return env
}

// pointEnv: names resolve to the values source variables hold just before instruction idx of block b.
func (t *tr) pointEnv(b *ssa.BasicBlock, idx int) *senv {
	env := t.ownEnv(nil)
	env.hdr = b
	env.upto = idx
	return env
}

// calleeEnv binds a callee contract's header names to the actual arguments.
func (t *tr) calleeEnv(fs *FuncSpec, cc *ssa.CallCommon, args [][]string, argTypes []types.Type, results [][]string, resTypes []types.Type) (*senv, error) {
	env := &senv{t: t, vars: map[string]*sv{}, lets: map[string]ast.Expr{}}
	if fs.Pkg != "" {
		if p := t.eng.pkgs[fs.Pkg]; p != nil {
			env.pkg = p.Pkg
		}
	}
	if len(fs.Params) != len(args) {
		return nil, fmt.Errorf("contract of %s names %d parameters, call has %d", fs.Key, len(fs.Params), len(args))
	}
	for i := range args {
		env.vars[fs.Params[i]] = t.svOfTerms(args[i], argTypes[i])
	}
	if results != nil {
		if len(fs.Results) != len(results) {
			return nil, fmt.Errorf("contract of %s names %d results, callee has %d", fs.Key, len(fs.Results), len(results))
		}
		for i := range results {
			env.vars[fs.Results[i]] = t.svOfTerms(results[i], resTypes[i])
		}
	}
	for _, l := range fs.Lets {
		env.lets[l.Name] = l.Expr
	}
	env.letEnv = env
	return env, nil
}

// ---------------------------------------------------------------- evaluation

type evalCtx struct {
	t    *tr
	env  *senv
	cur  map[string]string
	old  map[string]string
	qvars []string // SMT bound variables in scope
	mode  int      // +1: the formula is used (assumed), -1: it has to be proved, 0: unknown polarity
	wf    *[]string // type facts of values loaded under the innermost binder
}

// evalAssume / evalGoal: the formula will be assumed / has to be proved. The difference only matters for the type facts of
// values loaded under a quantifier (valid facts about typed memory): where the solver uses the quantified formula they
// are added as conjuncts, where it has to prove it they are added as hypotheses.
func (t *tr) evalAssume(e ast.Expr, env *senv, cur, old map[string]string) (string, error) {
	return t.evalBoolMode(e, env, cur, old, 1)
}
func (t *tr) evalGoal(e ast.Expr, env *senv, cur, old map[string]string) (string, error) {
	return t.evalBoolMode(e, env, cur, old, -1)
}
func (t *tr) evalBool(e ast.Expr, env *senv, cur, old map[string]string) (string, error) {
	return t.evalBoolMode(e, env, cur, old, 0)
}

func (t *tr) evalBoolMode(e ast.Expr, env *senv, cur, old map[string]string, mode int) (s string, err error) {
	defer func() {
		if r := recover(); r != nil {
			err = fmt.Errorf("%v", r)
		}
	}()
	c := &evalCtx{t: t, env: env, cur: cur, old: old, mode: mode}
	v := c.eval(e)
	if v.sort != "bool" {
		return "", fmt.Errorf("expression %s is not boolean (sort %q)", types.ExprString(e), v.sort)
	}
	return c.rv(v)[0], nil
}

func (t *tr) evalInt(e ast.Expr, env *senv, cur, old map[string]string) (s string, err error) {
	defer func() {
		if r := recover(); r != nil {
			err = fmt.Errorf("%v", r)
		}
	}()
	c := &evalCtx{t: t, env: env, cur: cur, old: old}
	v := c.eval(e)
	if v.sort != "int" {
		return "", fmt.Errorf("expression %s is not an integer", types.ExprString(e))
	}
	return c.rv(v)[0], nil
}

func (c *evalCtx) fail(f string, a ...interface{}) { panic(fmt.Sprintf(f, a...)) }

// rv returns the rvalue terms of v (loading from memory when v is an lvalue).
func (c *evalCtx) rv(v *sv) []string {
	if v.terms != nil {
		return v.terms
	}
	if v.addr != "" {
		if v.ty == nil {
			c.fail("untyped lvalue")
		}
		terms := c.t.load(c.cur, v.addr, v.ty)
		// typed memory: whatever is loaded has the invariants of its static type (facts are global; skipped under binders)
		if !c.env.inQuant && len(terms) == 1 {
			if !c.t.specFacts[terms[0]] {
				c.t.specFacts[terms[0]] = true
				c.t.typeFacts("true", terms[0], v.ty)
			}
		} else if c.env.inQuant && len(terms) == 1 && c.wf != nil {
			if f := c.t.typeFactTerm(terms[0], v.ty); f != "" {
				*c.wf = append(*c.wf, f)
			}
		}
		return terms
	}
	if v.nilLit {
		c.fail("untyped nil outside a comparison")
	}
	c.fail("value without terms")
	return nil
}

func (c *evalCtx) rv1(v *sv) string {
	ts := c.rv(v)
	if len(ts) != 1 {
		c.fail("composite value where a scalar is needed (%v)", v.ty)
	}
	return ts[0]
}

func (c *evalCtx) withHeaps(cur map[string]string) *evalCtx {
	n := *c
	n.cur = cur
	return &n
}

func boolSV(term string) *sv { return &sv{sort: "bool", terms: []string{term}, ty: types.Typ[types.Bool]} }
func intSV(term string) *sv  { return &sv{sort: "int", terms: []string{term}, ty: types.Typ[types.Int]} }

func (c *evalCtx) eval(e ast.Expr) *sv {
	switch x := e.(type) {
	case *ast.ParenExpr:
		return c.eval(x.X)
	case *ast.BasicLit:
		switch x.Kind {
		case token.INT:
			v := constant.MakeFromLiteral(x.Value, token.INT, 0)
			return &sv{sort: "int", terms: []string{smtInt(v.ExactString())}, ty: types.Typ[types.UntypedInt], untypedInt: true}
		case token.CHAR:
			v := constant.MakeFromLiteral(x.Value, token.CHAR, 0)
			return &sv{sort: "int", terms: []string{smtInt(v.ExactString())}, ty: types.Typ[types.UntypedInt], untypedInt: true}
		case token.STRING:
			s, err := strconv.Unquote(x.Value)
			if err != nil {
				c.fail("bad string literal %s", x.Value)
			}
			return &sv{sort: "str", terms: []string{c.t.eng.lit(s)}, ty: types.Typ[types.String]}
		case token.FLOAT:
			v := constant.MakeFromLiteral(x.Value, token.FLOAT, 0)
			return &sv{sort: "f64", terms: []string{fpLit(v, "f64")}, ty: types.Typ[types.Float64]}
		}
	case *ast.Ident:
		return c.ident(x)
	case *ast.SelectorExpr:
		return c.selector(x)
	case *ast.StarExpr:
		p := c.eval(x.X)
		pt, ok := p.ty.Underlying().(*types.Pointer)
		if !ok {
			c.fail("* applied to non-pointer %s", types.ExprString(x.X))
		}
		return &sv{ty: pt.Elem(), sort: leafSort(pt.Elem()), addr: c.rv1(p)}
	case *ast.UnaryExpr:
		switch x.Op {
		case token.NOT:
			nc := *c
			nc.mode = -c.mode
			return boolSV("(not " + nc.rv1(nc.eval(x.X)) + ")")
		case token.SUB:
			v := c.eval(x.X)
			if v.sort == "f64" {
				return &sv{sort: "f64", ty: v.ty, terms: []string{"(fp.neg " + c.rv1(v) + ")"}}
			}
			r := intSV("(- " + c.rv1(v) + ")")
			r.untypedInt = v.untypedInt
			return r
		case token.AND:
			v := c.eval(x.X)
			if v.addr == "" {
				c.fail("& of a non-addressable spec expression")
			}
			return &sv{ty: types.NewPointer(v.ty), sort: "loc", terms: []string{v.addr}}
		}
	case *ast.BinaryExpr:
		return c.binary(x)
	case *ast.IndexExpr:
		return c.index(x)
	case *ast.SliceExpr:
		return c.sliceExpr(x)
	case *ast.CallExpr:
		return c.call(x)
	}
	c.fail("unsupported spec expression %s (%T)", types.ExprString(e), e)
	return nil
}

func (c *evalCtx) ident(x *ast.Ident) *sv {
	switch x.Name {
	case "true":
		return boolSV("true")
	case "false":
		return boolSV("false")
	case "nil":
		return &sv{nilLit: true}
	}
	if v, ok := c.env.vars[x.Name]; ok {
		return v
	}
	if le, ok := c.env.lets[x.Name]; ok {
		// lets are evaluated in the heaps of the use site (so that old(...) inside still means the pre-state)
		lc := *c
		lc.env = c.env.letEnv
		return lc.eval(le)
	}
	// source-level variable of the function under contract (loop invariants)
	if c.env.hdr != nil {
		if v := c.resolveLocal(x.Name); v != nil {
			return v
		}
	}
	// package-level constant / variable
	if c.env.pkg != nil {
		if obj := c.env.pkg.Scope().Lookup(x.Name); obj != nil {
			return c.object(obj)
		}
	}
	if obj := types.Universe.Lookup(x.Name); obj != nil {
		if k, ok := obj.(*types.Const); ok {
			return c.constSV(k.Val(), k.Type())
		}
	}
	c.fail("unbound name %q", x.Name)
	return nil
}

func (c *evalCtx) constSV(v constant.Value, ty types.Type) *sv {
	switch v.Kind() {
	case constant.Bool:
		if constant.BoolVal(v) {
			return boolSV("true")
		}
		return boolSV("false")
	case constant.Int:
		return &sv{sort: "int", terms: []string{smtInt(v.ExactString())}, ty: ty, untypedInt: true}
	case constant.String:
		return &sv{sort: "str", terms: []string{c.t.eng.lit(constant.StringVal(v))}, ty: ty}
	case constant.Float:
		return &sv{sort: "f64", terms: []string{fpLit(v, "f64")}, ty: ty}
	}
	c.fail("unsupported constant")
	return nil
}

func (c *evalCtx) object(obj types.Object) *sv {
	switch o := obj.(type) {
	case *types.Const:
		return c.constSV(o.Val(), o.Type())
	case *types.Var:
		// package-level variable
		pkg := c.t.eng.pkgs[o.Pkg().Path()]
		if pkg == nil {
			c.fail("package %s not loaded", o.Pkg().Path())
		}
		g, ok := pkg.Members[o.Name()].(*ssa.Global)
		if !ok {
			c.fail("%s is not a global", o.Name())
		}
		return &sv{ty: o.Type(), sort: leafSort(o.Type()), addr: c.t.v(g)}
	}
	c.fail("unsupported object %s", obj)
	return nil
}

// resolveLocal finds the SSA value that holds source variable `name` at the loop header.
func (c *evalCtx) resolveLocal(name string) *sv {
	t := c.t
	b := c.env.hdr
	if name == "loopidx" {
		// number of completed iterations of a range loop: the hidden index phi starts at -1 and is incremented in the header
		for _, ins := range b.Instrs {
			if phi, ok := ins.(*ssa.Phi); ok && phi.Comment == "rangeindex" {
				var base string
				if c.env.phiOv != nil {
					if ov, ok := c.env.phiOv[phi]; ok {
						base = ov[0]
					}
				}
				if base == "" {
					base = t.vals(phi)[0]
				}
				return intSV(fmt.Sprintf("(+ %s 1)", base))
			}
		}
		return nil
	}
	for _, ins := range b.Instrs {
		if phi, ok := ins.(*ssa.Phi); ok && phi.Comment == name {
			if c.env.phiOv != nil {
				if ov, ok := c.env.phiOv[phi]; ok {
					return t.svOfTerms(ov, phi.Type())
				}
			}
			return t.svOfTerms(t.vals(phi), phi.Type())
		}
	}
	// address-taken local (Alloc with that name) defined in a dominator
	var bestAlloc *ssa.Alloc
	var best ssa.Value
	for _, d := range t.fn.Blocks {
		if !(d.Dominates(b)) || (d == b && c.env.upto < 0) {
			continue
		}
		for k, ins := range d.Instrs {
			if d == b && k >= c.env.upto {
				break
			}
			switch y := ins.(type) {
			case *ssa.Alloc:
				if y.Comment == name {
					bestAlloc = y
				}
			case *ssa.DebugRef:
				if id, ok := y.Expr.(*ast.Ident); ok && id.Name == name && !y.IsAddr {
					best = y.X
					if os.Getenv("GOVC_DEBUG") != "" {
						fmt.Fprintf(os.Stderr, "  dbgref %s in block %d (hdr %d upto %d): %v pos %v\n", name, d.Index, b.Index, c.env.upto, y.X, t.fn.Prog.Fset.Position(y.Pos()))
					}
				}
			}
		}
	}
	if c.env.upto >= 0 {
		// at a program point inside block b: phis of b itself by name
		for _, ins := range b.Instrs {
			if phi, ok := ins.(*ssa.Phi); ok && phi.Comment == name {
				if _, defd := t.val[phi]; defd && best == nil {
					best = phi
				}
			}
		}
	}
	// phis of enclosing loop headers (dominators) by comment
	for _, d := range t.fn.Blocks {
		if d == b || !d.Dominates(b) {
			continue
		}
		if _, isHdr := t.loopHdr[d]; !isHdr {
			continue
		}
		for _, ins := range d.Instrs {
			if phi, ok := ins.(*ssa.Phi); ok && phi.Comment == name {
				if _, defd := t.val[phi]; defd {
					best = phi
				}
			}
		}
	}
	if _, isC := best.(*ssa.Const); isC && best != nil {
		// go/ssa may attach the declaration `var x = e` to the variable's zero value (the reference is emitted before the
		// initialising store is lifted). If every other reference to x in the function names one and the same value, defined
		// in a block that dominates this point, x was never reassigned and that value is x here.
		var other ssa.Value
		unique := true
		for _, d := range t.fn.Blocks {
			for _, ins := range d.Instrs {
				y, ok := ins.(*ssa.DebugRef)
				if !ok || y.IsAddr {
					continue
				}
				if id, ok := y.Expr.(*ast.Ident); !ok || id.Name != name {
					continue
				}
				if _, isConst := y.X.(*ssa.Const); isConst {
					continue
				}
				if other != nil && other != y.X {
					unique = false
				}
				other = y.X
			}
		}
		if other != nil && unique {
			if oi, ok := other.(ssa.Instruction); ok && oi.Block() != nil && oi.Block().Dominates(b) && oi.Block() != b {
				if _, defd := t.val[other]; defd {
					best = other
				}
			}
		}
	}
	if bestAlloc != nil {
		if _, ok := t.val[bestAlloc]; ok {
			el := bestAlloc.Type().(*types.Pointer).Elem()
			return &sv{ty: el, sort: leafSort(el), addr: t.v(bestAlloc)}
		}
	}
	if best != nil {
		if os.Getenv("GOVC_DEBUG") != "" {
			fmt.Fprintf(os.Stderr, "resolveLocal %s -> %v (%T) val=%v\n", name, best, best, t.val[best])
		}
		if _, ok := t.val[best]; ok {
			return t.svOfTerms(t.vals(best), best.Type())
		}
		if _, isC := best.(*ssa.Const); isC {
			return t.svOfTerms(t.vals(best), best.Type())
		}
	}
	return nil
}

func (c *evalCtx) selector(x *ast.SelectorExpr) *sv {
	// qualified identifier pkg.Name
	if id, ok := x.X.(*ast.Ident); ok {
		if _, isVar := c.env.vars[id.Name]; !isVar && c.env.pkg != nil && (c.env.hdr == nil || c.resolveLocalQuiet(id.Name) == nil) {
			for _, imp := range c.env.pkg.Imports() {
				if imp.Name() == id.Name {
					obj := imp.Scope().Lookup(x.Sel.Name)
					if obj == nil {
						c.fail("%s.%s not found", id.Name, x.Sel.Name)
					}
					return c.object(obj)
				}
			}
		}
	}
	base := c.eval(x.X)
	return c.field(base, x.Sel.Name)
}

func (c *evalCtx) resolveLocalQuiet(name string) (v *sv) {
	defer func() { recover() }()
	return c.resolveLocal(name)
}

// field selects a (possibly promoted) field.
func (c *evalCtx) field(base *sv, name string) *sv {
	if base.ty == nil {
		c.fail("selector .%s on untyped value", name)
	}
	var pkg *types.Package
	if n := namedOf(base.ty); n != nil {
		pkg = n.Obj().Pkg()
	}
	obj, path, _ := types.LookupFieldOrMethod(base.ty, true, pkg, name)
	fv, ok := obj.(*types.Var)
	if !ok || !fv.IsField() {
		c.fail("no field %s in %s", name, base.ty)
	}
	cur := base
	for _, idx := range path {
		cur = c.fieldStep(cur, idx)
	}
	return cur
}

func namedOf(ty types.Type) *types.Named {
	if p, ok := ty.Underlying().(*types.Pointer); ok {
		ty = p.Elem()
	}
	if p, ok := ty.(*types.Pointer); ok {
		ty = p.Elem()
	}
	n, _ := ty.(*types.Named)
	return n
}

func (c *evalCtx) fieldStep(base *sv, idx int) *sv {
	ty := base.ty
	if pt, ok := ty.Underlying().(*types.Pointer); ok {
		st, ok := pt.Elem().Underlying().(*types.Struct)
		if !ok {
			c.fail("field access through pointer to non-struct")
		}
		p := c.small(c.rv1(base), "Loc")
		ft := st.Field(idx).Type()
		return &sv{ty: ft, sort: leafSort(ft), addr: c.t.fieldLoc(p, ty, fieldOffset(st, idx))}
	}
	st, ok := ty.Underlying().(*types.Struct)
	if !ok {
		c.fail("field access on non-struct %s", ty)
	}
	ft := st.Field(idx).Type()
	off := fieldOffset(st, idx)
	if base.addr != "" && base.terms == nil {
		return &sv{ty: ft, sort: leafSort(ft), addr: locPlus(base.addr, off)}
	}
	return &sv{ty: ft, sort: leafSort(ft), terms: base.terms[off : off+stride(ft)]}
}

func (c *evalCtx) index(x *ast.IndexExpr) *sv {
	base := c.eval(x.X)
	idx := c.rv1(c.eval(x.Index))
	if base.ty == nil {
		c.fail("index on untyped value")
	}
	switch u := base.ty.Underlying().(type) {
	case *types.Slice:
		s := c.small(c.rv1(base), "Slice")
		return &sv{ty: u.Elem(), sort: leafSort(u.Elem()), addr: sliceElemLoc(s, idx, stride(u.Elem()), c.t.sliceTagConst(base.ty))}
	case *types.Array:
		if base.addr != "" && base.terms == nil {
			return &sv{ty: u.Elem(), sort: leafSort(u.Elem()), addr: locPlusTerm(base.addr, mulConst(idx, stride(u.Elem())))}
		}
		if k, err := strconv.Atoi(idx); err == nil {
			n := stride(u.Elem())
			return &sv{ty: u.Elem(), sort: leafSort(u.Elem()), terms: base.terms[k*n : (k+1)*n]}
		}
		c.fail("variable index into array value")
	case *types.Pointer:
		if arr, ok := u.Elem().Underlying().(*types.Array); ok {
			p := c.rv1(base)
			return &sv{ty: arr.Elem(), sort: leafSort(arr.Elem()), addr: locPlusTerm(p, mulConst(idx, stride(arr.Elem())))}
		}
	case *types.Basic:
		if u.Info()&types.IsString != 0 {
			return &sv{ty: types.Typ[types.Uint8], sort: "int", terms: []string{fmt.Sprintf("(sat %s %s)", c.rv1(base), idx)}}
		}
	case *types.Map:
		ks, vs := mapSorts(u)
		if ks == "" || vs == "" {
			c.fail("map with composite key/element in spec")
		}
		m := c.rv1(base)
		// a lookup is written as an application of mapget_<k>_<v> (defined by an axiom as the usual if-present-then-value-
		// else-zero): unlike `ite`, an application may occur in quantifier patterns (e.g. forall i: len(r.m[t][i]) > 0)
		fn := c.t.mapGetFn(ks, vs)
		return &sv{ty: u.Elem(), sort: vs, terms: []string{fmt.Sprintf("(%s %s %s %s %s)", fn, c.t.H(c.cur, "MD_"+ks), c.t.H(c.cur, "MV_"+ks+"_"+vs), m, idx)}}
	}
	c.fail("cannot index %s", base.ty)
	return nil
}

func (c *evalCtx) sliceExpr(x *ast.SliceExpr) *sv {
	base := c.eval(x.X)
	lo := "0"
	if x.Low != nil {
		lo = c.rv1(c.eval(x.Low))
	}
	switch u := base.ty.Underlying().(type) {
	case *types.Slice:
		s := c.rv1(base)
		hi := "(slen " + s + ")"
		if x.High != nil {
			hi = c.rv1(c.eval(x.High))
		}
		return &sv{ty: base.ty, sort: "slice", terms: []string{fmt.Sprintf("(mkslice (styp %s) (sref %s) (+ (soff %s) %s) (- %s %s) (- (scap %s) %s))", s, s, s, mulConst(lo, stride(u.Elem())), hi, lo, s, lo)}}
	case *types.Array:
		if base.addr == "" {
			c.fail("slicing an array value")
		}
		hi := fmt.Sprint(u.Len())
		if x.High != nil {
			hi = c.rv1(c.eval(x.High))
		}
		p := base.addr
		return &sv{ty: types.NewSlice(u.Elem()), sort: "slice", terms: []string{fmt.Sprintf("(mkslice (ltyp %s) (lref %s) (+ (lcell %s) %s) (- %s %s) (- %d %s))", p, p, p, mulConst(lo, stride(u.Elem())), hi, lo, u.Len(), lo)}}
	case *types.Basic:
		s := c.rv1(base)
		hi := "(slen_s " + s + ")"
		if x.High != nil {
			hi = c.rv1(c.eval(x.High))
		}
		return &sv{ty: base.ty, sort: "str", terms: []string{fmt.Sprintf("(str_sub %s %s %s)", s, lo, hi)}}
	}
	c.fail("cannot slice %s", base.ty)
	return nil
}

func nilOf(v *sv) string {
	switch v.sort {
	case "loc":
		return "nullloc"
	case "iface":
		return "niliface"
	case "slice":
		return "nullslice"
	case "map", "func", "chan":
		return "0"
	}
	return ""
}

func (c *evalCtx) binary(x *ast.BinaryExpr) *sv {
	switch x.Op {
	case token.LAND, token.LOR:
		a, b := c.rv1(c.eval(x.X)), c.rv1(c.eval(x.Y))
		op := "and"
		if x.Op == token.LOR {
			op = "or"
		}
		return boolSV(fmt.Sprintf("(%s %s %s)", op, a, b))
	}
	if x.Op == token.EQL || x.Op == token.NEQ {
		nc := *c
		nc.mode = 0
		c = &nc
	}
	l, r := c.eval(x.X), c.eval(x.Y)
	switch x.Op {
	case token.EQL, token.NEQ:
		var e string
		switch {
		case l.nilLit && r.nilLit:
			e = "true"
		case r.nilLit || l.nilLit:
			v := l
			if l.nilLit {
				v = r
			}
			if v.sort == "slice" {
				e = fmt.Sprintf("(= (sref %s) 0)", c.rv1(v))
			} else if n := nilOf(v); n != "" {
				e = fmt.Sprintf("(= %s %s)", c.rv1(v), n)
			} else {
				c.fail("comparison of %s with nil", v.sort)
			}
		default:
			lt, rt := c.rv(l), c.rv(r)
			if len(lt) != len(rt) {
				c.fail("comparison of values of different shape: %s", types.ExprString(x))
			}
			if l.sort != r.sort {
				c.fail("comparison of different sorts %q and %q in %s", l.sort, r.sort, types.ExprString(x))
			}
			var eqs []string
			for i := range lt {
				if l.sort == "f64" || l.sort == "f32" {
					eqs = append(eqs, fmt.Sprintf("(fp.eq %s %s)", lt[i], rt[i]))
				} else {
					eqs = append(eqs, fmt.Sprintf("(= %s %s)", lt[i], rt[i]))
				}
			}
			if len(eqs) == 1 {
				e = eqs[0]
			} else {
				e = "(and " + strings.Join(eqs, " ") + ")"
			}
		}
		if x.Op == token.NEQ {
			e = "(not " + e + ")"
		}
		return boolSV(e)
	case token.LSS, token.LEQ, token.GTR, token.GEQ:
		a, b := c.rv1(l), c.rv1(r)
		if l.sort == "f64" || l.sort == "f32" {
			op := map[token.Token]string{token.LSS: "fp.lt", token.LEQ: "fp.leq", token.GTR: "fp.gt", token.GEQ: "fp.geq"}[x.Op]
			return boolSV(fmt.Sprintf("(%s %s %s)", op, a, b))
		}
		if l.sort != "int" || r.sort != "int" {
			c.fail("ordering on non-integers in %s", types.ExprString(x))
		}
		return boolSV(fmt.Sprintf("(%s %s %s)", x.Op.String(), a, b))
	case token.ADD, token.SUB, token.MUL:
		a, b := c.rv1(l), c.rv1(r)
		if l.sort == "str" && x.Op == token.ADD {
			return &sv{sort: "str", ty: l.ty, terms: []string{fmt.Sprintf("(str_cat %s %s)", a, b)}}
		}
		if l.sort != "int" || r.sort != "int" {
			c.fail("arithmetic on non-integers in %s", types.ExprString(x))
		}
		// spec arithmetic is mathematical (unbounded)
		return intSV(fmt.Sprintf("(%s %s %s)", x.Op.String(), a, b))
	case token.QUO:
		return intSV(fmt.Sprintf("(div %s %s)", c.rv1(l), c.rv1(r)))
	case token.REM:
		return intSV(fmt.Sprintf("(mod %s %s)", c.rv1(l), c.rv1(r)))
	}
	c.fail("unsupported operator %s", x.Op)
	return nil
}

var convNames = map[string]types.Type{
	"int": types.Typ[types.Int], "int8": types.Typ[types.Int8], "int16": types.Typ[types.Int16], "int32": types.Typ[types.Int32], "int64": types.Typ[types.Int64],
	"uint": types.Typ[types.Uint], "uint8": types.Typ[types.Uint8], "byte": types.Typ[types.Uint8], "uint16": types.Typ[types.Uint16], "uint32": types.Typ[types.Uint32], "uint64": types.Typ[types.Uint64],
}

func (c *evalCtx) call(x *ast.CallExpr) *sv {
	id, ok := x.Fun.(*ast.Ident)
	if !ok {
		c.fail("unsupported call %s in spec", types.ExprString(x.Fun))
	}
	name := id.Name
	args := x.Args
	need := func(n int) {
		if len(args) != n {
			c.fail("%s expects %d argument(s)", name, n)
		}
	}
	switch name {
	case "old":
		need(1)
		v := c.withHeaps(c.old).eval(args[0])
		// force the load in the old state
		if v.terms == nil && v.addr != "" {
			oc := c.withHeaps(c.old)
			return &sv{ty: v.ty, sort: v.sort, terms: oc.rv(v)}
		}
		return v
	case "implies":
		need(2)
		nc := *c
		nc.mode = -c.mode
		return boolSV(fmt.Sprintf("(=> %s %s)", nc.rv1(nc.eval(args[0])), c.rv1(c.eval(args[1]))))
	case "iff":
		need(2)
		nc := *c
		nc.mode = 0
		return boolSV(fmt.Sprintf("(= %s %s)", nc.rv1(nc.eval(args[0])), nc.rv1(nc.eval(args[1]))))
	case "ite":
		need(3)
		cnd := c.rv1(c.eval(args[0]))
		a, b := c.eval(args[1]), c.eval(args[2])
		at, bt := c.rv(a), c.rv(b)
		if len(at) != len(bt) {
			c.fail("ite branches of different shape")
		}
		var ts []string
		for i := range at {
			ts = append(ts, fmt.Sprintf("(ite %s %s %s)", cnd, at[i], bt[i]))
		}
		return &sv{ty: a.ty, sort: a.sort, terms: ts}
	case "len":
		need(1)
		v := c.eval(args[0])
		switch {
		case v.sort == "slice":
			return intSV("(slen " + c.rv1(v) + ")")
		case v.sort == "str":
			return intSV("(slen_s " + c.rv1(v) + ")")
		case v.sort == "seq":
			return intSV("(seq_len " + c.rv1(v) + ")")
		case v.sort == "map":
			return intSV(fmt.Sprintf("(select %s %s)", c.t.H(c.cur, "ML"), c.rv1(v)))
		}
		if v.ty != nil {
			if a, ok := v.ty.Underlying().(*types.Array); ok {
				return intSV(fmt.Sprint(a.Len()))
			}
		}
		c.fail("len of %s", v.sort)
	case "cap":
		need(1)
		return intSV("(scap " + c.rv1(c.eval(args[0])) + ")")
	case "forall", "exists":
		return c.quant(name, args)
	case "forallv", "existsv":
		return c.quantV(name, args)
	case "seq":
		need(1)
		return c.seqOf(c.eval(args[0]))
	case "cat":
		if len(args) < 2 {
			c.fail("cat needs at least 2 arguments")
		}
		cur := c.toSeq(c.eval(args[0]))
		for _, a := range args[1:] {
			cur = fmt.Sprintf("(seq_cat %s %s)", cur, c.toSeq(c.eval(a)))
		}
		return &sv{sort: "seq", terms: []string{cur}}
	case "sub":
		need(3)
		return &sv{sort: "seq", terms: []string{fmt.Sprintf("(seq_sub %s %s %s)", c.toSeq(c.eval(args[0])), c.rv1(c.eval(args[1])), c.rv1(c.eval(args[2])))}}
	case "seqat":
		need(2)
		return intSV(fmt.Sprintf("(seq_at %s %s)", c.toSeq(c.eval(args[0])), c.rv1(c.eval(args[1]))))
	case "unit":
		need(1)
		return &sv{sort: "seq", terms: []string{fmt.Sprintf("(seq_unit %s)", c.rv1(c.eval(args[0])))}}
	case "empty":
		need(0)
		return &sv{sort: "seq", terms: []string{"seq_empty"}}
	case "tostr":
		need(1)
		return &sv{sort: "str", ty: types.Typ[types.String], terms: []string{fmt.Sprintf("(str_of_seq %s)", c.toSeq(c.eval(args[0])))}}
	case "typeis":
		need(2)
		v := c.rv1(c.eval(args[0]))
		tn := c.typeArg(args[1])
		return boolSV(fmt.Sprintf("(= (ityp %s) %d)", v, tn))
	case "dyn":
		need(1)
		return intSV("(ityp " + c.rv1(c.eval(args[0])) + ")")
	case "typetag":
		need(1)
		return intSV(fmt.Sprint(c.typeArg(args[0])))
	case "asint":
		need(1)
		return intSV("(iint " + c.rv1(c.eval(args[0])) + ")")
	case "asbool":
		need(1)
		return boolSV("(ibool " + c.rv1(c.eval(args[0])) + ")")
	case "asstr":
		need(1)
		return &sv{sort: "str", ty: types.Typ[types.String], terms: []string{"(istr " + c.rv1(c.eval(args[0])) + ")"}}
	case "asfloat":
		need(1)
		return &sv{sort: "f64", ty: types.Typ[types.Float64], terms: []string{"(ifp " + c.rv1(c.eval(args[0])) + ")"}}
	case "asbytes":
		need(1)
		return &sv{sort: "slice", ty: types.NewSlice(types.Typ[types.Uint8]), terms: []string{"(islice " + c.rv1(c.eval(args[0])) + ")"}}
	case "asptr":
		// asptr(v, "T"): payload of an interface value as *T
		v := c.rv1(c.eval(args[0]))
		r := &sv{sort: "loc", terms: []string{"(iloc " + v + ")"}}
		if len(args) == 2 {
			r.ty = c.typeOfArg(args[1])
		}
		return r
	case "loopidx":
		// loopidx(k): number of completed iterations of range loop k (for an enclosing loop: the index of its current element)
		need(1)
		k, err := strconv.Atoi(types.ExprString(args[0]))
		if err != nil {
			c.fail("loopidx(k) needs a literal loop ordinal")
		}
		for hb, ord := range c.t.loopHdr {
			if ord != k {
				continue
			}
			for _, ins := range hb.Instrs {
				if phi, ok := ins.(*ssa.Phi); ok && phi.Comment == "rangeindex" {
					if hb == c.env.hdr && c.env.phiOv != nil {
						if ov, ok := c.env.phiOv[phi]; ok {
							return intSV(fmt.Sprintf("(+ %s 1)", ov[0]))
						}
					}
					if _, defd := c.t.val[phi]; !defd {
						c.fail("loop %d is not entered yet at this point", k)
					}
					return intSV(fmt.Sprintf("(+ %s 1)", c.t.vals(phi)[0]))
				}
			}
		}
		c.fail("no range loop %d", k)
	case "ranged":
		// ranged() / ranged(k): the slice a range loop iterates over (the current loop, or loop k), which has no name in the
		// source when it is a call result
		hb := c.env.hdr
		if len(args) == 1 {
			k, err := strconv.Atoi(types.ExprString(args[0]))
			if err != nil {
				c.fail("ranged(k) needs a literal loop ordinal")
			}
			hb = nil
			for b, ord := range c.t.loopHdr {
				if ord == k {
					hb = b
				}
			}
		}
		if hb == nil {
			c.fail("ranged: no such loop")
		}
		for _, ins := range hb.Instrs {
			if bo, ok := ins.(*ssa.BinOp); ok && bo.Op == token.LSS {
				if call, ok := bo.Y.(*ssa.Call); ok {
					if bi, ok := call.Call.Value.(*ssa.Builtin); ok && bi.Name() == "len" {
						x := call.Call.Args[0]
						if _, defd := c.t.val[x]; defd {
							return c.t.svOfTerms(c.t.vals(x), x.Type())
						}
						if _, isC := x.(*ssa.Const); isC {
							return c.t.svOfTerms(c.t.vals(x), x.Type())
						}
					}
				}
			}
		}
		c.fail("ranged: loop is not a range over a slice")
	case "at":
		// at(r, "pkg/path.T"): the pointer to the object with reference r of allocation type T
		need(2)
		r := c.rv1(c.eval(args[0]))
		ty := c.typeOfArg(args[1])
		return &sv{sort: "loc", ty: types.NewPointer(ty), terms: []string{fmt.Sprintf("(mkloc %d %s 0)", c.t.eng.tag(ty), r)}}
	case "isfunc":
		// isfunc(v, "<ssa function name>"): the func value (or the func boxed in interface v) is that function/closure
		need(2)
		v := c.eval(args[0])
		bl, ok := args[1].(*ast.BasicLit)
		if !ok {
			c.fail("isfunc needs a string literal")
		}
		f := c.t.eng.byName[unquote(bl.Value)]
		if f == nil {
			c.fail("isfunc: no function %s", unquote(bl.Value))
		}
		sym := c.t.funcSym(f)
		if v.sort == "iface" {
			return boolSV(fmt.Sprintf("(and (not (= (ityp %s) 0)) (= (iint %s) %s))", c.rv1(v), c.rv1(v), sym))
		}
		return boolSV(fmt.Sprintf("(= %s %s)", c.rv1(v), sym))
	case "haskey":
		// haskey(m, k): k is in the domain of map m
		need(2)
		mv := c.eval(args[0])
		mt, ok := mv.ty.Underlying().(*types.Map)
		if !ok {
			c.fail("haskey needs a map")
		}
		ks, _ := mapSorts(mt)
		if ks == "" {
			c.fail("haskey: composite key")
		}
		m := c.rv1(mv)
		k := c.rv1(c.eval(args[1]))
		return boolSV(fmt.Sprintf("(and (not (= %s 0)) (select (select %s %s) %s))", m, c.t.H(c.cur, "MD_"+ks), m, k))
	case "sentinel":
		// sentinel("io.EOF"): the value of a well-known error variable
		need(1)
		bl, ok := args[0].(*ast.BasicLit)
		if !ok {
			c.fail("sentinel needs a string literal")
		}
		return &sv{sort: "iface", ty: types.Universe.Lookup("error").Type(), terms: []string{c.t.globalConst(unquote(bl.Value), "iface", true)}}
	case "wellformed":
		need(1)
		v := c.eval(args[0])
		if v.sort != "iface" {
			c.fail("wellformed needs an interface value")
		}
		return boolSV("(iface_wf " + c.rv1(v) + ")")
	case "isnan":
		need(1)
		return boolSV("(fp.isNaN " + c.rv1(c.eval(args[0])) + ")")
	case "isinf":
		need(1)
		return boolSV("(fp.isInfinite " + c.rv1(c.eval(args[0])) + ")")
	case "ref":
		need(1)
		v := c.eval(args[0])
		r := refOf(v.sort, c.rv1(v))
		if r == "" {
			c.fail("ref of non-reference sort %q", v.sort)
		}
		return intSV(r)
	case "addr":
		need(1)
		v := c.eval(args[0])
		if v.addr == "" {
			c.fail("addr of non-lvalue")
		}
		return &sv{sort: "loc", terms: []string{v.addr}, ty: types.NewPointer(v.ty)}
	case "fresh":
		// fresh(x): the object x refers to did not exist when the function was entered
		need(1)
		v := c.eval(args[0])
		r := refOf(v.sort, c.rv1(v))
		if r == "" {
			c.fail("fresh of non-reference sort %q", v.sort)
		}
		conj := []string{fmt.Sprintf("(> %s 0)", r), fmt.Sprintf("(not (existed %s))", r)}
		if c.env.callerSide {
			// allocated during the call: newer than everything the caller knew, older than everything it allocates afterwards
			conj = append(conj, fmt.Sprintf("(> (born %s) %d)", r, c.env.callerEpoch), fmt.Sprintf("(<= (born %s) %d)", r, c.env.callerEpoch+1))
		}
		return boolSV("(and " + strings.Join(conj, " ") + ")")
	case "existed":
		// existed(x): the object x refers to existed when the function was entered
		need(1)
		v := c.eval(args[0])
		r := refOf(v.sort, c.rv1(v))
		if r == "" {
			c.fail("existed of non-reference sort %q", v.sort)
		}
		return boolSV("(existed " + r + ")")
	case "unchanged":
		var conj []string
		for _, a := range args {
			nv := c.eval(a)
			ov := c.withHeaps(c.old).eval(a)
			nt, ot := c.rv(nv), c.withHeaps(c.old).rv(ov)
			for i := range nt {
				conj = append(conj, fmt.Sprintf("(= %s %s)", nt[i], ot[i]))
			}
		}
		if len(conj) == 0 {
			return boolSV("true")
		}
		return boolSV("(and " + strings.Join(conj, " ") + ")")
	case "nochange":
		// nochange(): every object that existed at entry has its entry contents, and every ghost has its entry value
		// (ghosts keyed by an object reference: for the objects that existed at entry)
		skip := map[string]bool{}
		for _, a := range args {
			if id, ok := a.(*ast.Ident); ok {
				skip["G_"+id.Name] = true
			}
		}
		var conj []string
		var names []string
		for h := range c.cur {
			names = append(names, h)
		}
		sort.Strings(names)
		for _, h := range names {
			cur, old := c.cur[h], c.t.H(c.old, h)
			if cur == old || strings.HasPrefix(h, "D_") || skip[h] {
				continue
			}
			c.t.nfresh++
			ty, ref := fmt.Sprintf("ncty%d", c.t.nfresh), fmt.Sprintf("ncref%d", c.t.nfresh)
			if strings.HasPrefix(h, "H_") {
				conj = append(conj, fmt.Sprintf("(forall ((%s Int) (%s Int)) (=> (existed %s) (= (select (select %s %s) %s) (select (select %s %s) %s))))", ty, ref, ref, cur, ty, ref, old, ty, ref))
			} else if g := c.t.eng.specs.Ghosts[strings.TrimPrefix(h, "G_")]; g != nil && len(g.Keys) > 0 && g.Keys[0] == "ref" {
				conj = append(conj, fmt.Sprintf("(forall ((%s Int)) (=> (existed %s) (= (select %s %s) (select %s %s))))", ref, ref, cur, ref, old, ref))
			} else {
				conj = append(conj, fmt.Sprintf("(= %s %s)", cur, old))
			}
		}
		if len(conj) == 0 {
			return boolSV("true")
		}
		return boolSV("(and " + strings.Join(conj, " ") + ")")
	case "sametype":
		// sametype(p): every object of p's allocation type other than p itself is as in the pre-state
		need(1)
		v := c.eval(args[0])
		pt, ok := v.ty.Underlying().(*types.Pointer)
		if !ok {
			c.fail("sametype needs a pointer")
		}
		p := c.rv1(v)
		tag := c.t.eng.tag(pt.Elem())
		var conj []string
		for _, ls := range uniq(leaves(pt.Elem())) {
			h := "H_" + ls
			// quantifier-free: the type's object table is the old one with p's row replaced
			conj = append(conj, fmt.Sprintf("(= (select %s %d) (store (select %s %d) (lref %s) (select (select %s %d) (lref %s))))", c.t.H(c.cur, h), tag, c.t.H(c.old, h), tag, p, c.t.H(c.cur, h), tag, p))
		}
		return boolSV("(and " + strings.Join(conj, " ") + ")")
	case "unchangedtypes":
		// unchangedtypes("T1", "[]*T2", ...): every object of these allocation types is as in the pre-state
		var conj []string
		for _, a := range args {
			ty := c.typeOfArg(a)
			tag := c.t.eng.tag(ty)
			content := ty
			if st, ok := ty.Underlying().(*types.Slice); ok {
				tag = c.t.eng.sliceTag(ty)
				content = st.Elem()
			}
			for _, ls := range uniq(leaves(content)) {
				h := "H_" + ls
				conj = append(conj, fmt.Sprintf("(= (select %s %d) (select %s %d))", c.t.H(c.cur, h), tag, c.t.H(c.old, h), tag))
			}
		}
		if len(conj) == 0 {
			return boolSV("true")
		}
		return boolSV("(and " + strings.Join(conj, " ") + ")")
	case "sameheap":
		// sameheap("sort"): the whole component heap of that sort is as in the pre-state
		need(1)
		bl, ok := args[0].(*ast.BasicLit)
		if !ok {
			c.fail("sameheap needs a sort name")
		}
		h := "H_" + unquote(bl.Value)
		return boolSV(fmt.Sprintf("(= %s %s)", c.t.H(c.cur, h), c.t.H(c.old, h)))
	case "sameobj":
		// sameobj(x): every cell of the object x points to is unchanged since the pre-state (per heap sort of its type)
		need(1)
		v := c.eval(args[0])
		return boolSV(c.objUnchanged(v))
	case "smt":
		// raw SMT-LIB boolean with $name placeholders for spec variables: smt("(> $n 0)")
		if len(args) < 1 {
			c.fail("smt needs a string")
		}
		bl, ok := args[0].(*ast.BasicLit)
		if !ok {
			c.fail("smt needs a string literal")
		}
		s := unquote(bl.Value)
		for i, a := range args[1:] {
			s = strings.ReplaceAll(s, fmt.Sprintf("$%d", i+1), c.rv1(c.eval(a)))
		}
		return boolSV(s)
	}
	if ty, ok := convNames[name]; ok {
		need(1)
		v := c.eval(args[0])
		if v.sort != "int" {
			c.fail("conversion %s of non-integer", name)
		}
		return &sv{sort: "int", ty: ty, terms: []string{wrapMod(c.rv1(v), ty)}}
	}
	if name == "float64" {
		need(1)
		v := c.eval(args[0])
		if v.sort == "int" {
			return &sv{sort: "f64", ty: types.Typ[types.Float64], terms: []string{fmt.Sprintf("((_ to_fp 11 53) RNE (to_real %s))", c.rv1(v))}}
		}
		return v
	}
	if ab, ok := c.t.eng.specs.Abstractions[name]; ok && c.env.abstract && c.abstractionApplies(args) {
		if len(args) != len(ab.Params) {
			c.fail("abstraction %s expects %d argument(s)", name, len(ab.Params))
		}
		ne := &senv{t: c.t, vars: map[string]*sv{}, lets: map[string]ast.Expr{}, depth: c.env.depth + 1, abstract: true, inQuant: c.env.inQuant}
		ne.pkg = c.env.pkg
		if ab.Pkg != "" {
			if pp := c.t.eng.pkgs[ab.Pkg]; pp != nil {
				ne.pkg = pp.Pkg
			}
		}
		ne.abstractAs = c.env.abstractAs
		for i, a := range args {
			v := c.eval(a)
			if v.sort == "iface" && c.env.abstractAs != nil {
				v = &sv{sort: "loc", ty: c.env.abstractAs, terms: []string{"(iloc " + c.rv1(v) + ")"}}
			}
			ne.vars[ab.Params[i]] = v
		}
		nc := *c
		nc.env = ne
		return nc.eval(ab.Body)
	}
	if g, ok := c.t.eng.specs.Ghosts[name]; ok {
		if len(args) != len(g.Keys) {
			c.fail("ghost %s expects %d key(s)", name, len(g.Keys))
		}
		term := c.t.H(c.cur, "G_"+name)
		for i, a := range args {
			term = fmt.Sprintf("(select %s %s)", term, c.ghostKey(g.Keys[i], c.eval(a)))
		}
		return &sv{sort: ghostValSort(g.Val), terms: []string{term}}
	}
	if sf, ok := c.t.eng.specs.SFuncs[name]; ok {
		if len(args) != len(sf.Params) {
			c.fail("spec func %s expects %d argument(s)", name, len(sf.Params))
		}
		var ts []string
		for i, a := range args {
			ts = append(ts, c.coerce(c.eval(a), sf.Params[i]))
		}
		term := "sf_" + name
		if len(ts) > 0 {
			term = "(sf_" + name + " " + strings.Join(ts, " ") + ")"
		}
		return &sv{sort: ghostValSort(sf.Result), terms: []string{term}}
	}
	if p, ok := c.t.eng.specs.Preds[name]; ok {
		if len(args) != len(p.Params) {
			c.fail("pred %s expects %d argument(s)", name, len(p.Params))
		}
		if c.env.depth > 20 {
			c.fail("predicate recursion too deep")
		}
		if c.t.opaquePreds[name] && c.t.dryRun == 0 {
			return c.opaquePred(name, p, args)
		}
		ne := &senv{t: c.t, vars: map[string]*sv{}, lets: map[string]ast.Expr{}, depth: c.env.depth + 1, callerSide: c.env.callerSide, callerPtrs: c.env.callerPtrs, callerEpoch: c.env.callerEpoch, inQuant: c.env.inQuant, abstract: c.env.abstract, abstractAs: c.env.abstractAs}
		ne.pkg = c.env.pkg
		if p.Pkg != "" {
			if pp := c.t.eng.pkgs[p.Pkg]; pp != nil {
				ne.pkg = pp.Pkg
			}
		}
		for i, a := range args {
			v := c.eval(a)
			// bind by value in the current state of the caller (an lvalue stays an lvalue so old() works inside)
			ne.vars[p.Params[i]] = v
		}
		nc := *c
		nc.env = ne
		res := nc.eval(p.Body)
		return c.nameBool(name, res)
	}
	c.fail("unknown spec function %q", name)
	return nil
}

// abstractionApplies: an abstraction is the definition of a ghost over the fields of the implementing type; it is used
// only when the object argument is (a pointer to) an implementation object - for a value of the interface type itself
// (e.g. another interface-typed parameter of the function under refinement) the ghost stays abstract.
func (c *evalCtx) abstractionApplies(args []ast.Expr) (ok bool) {
	if len(args) == 0 {
		return true
	}
	defer func() {
		if r := recover(); r != nil {
			ok = true
		}
	}()
	v := c.eval(args[0])
	if v.sort == "iface" && c.env.abstractAs == nil {
		return false
	}
	return true
}

func (c *evalCtx) typeArg(a ast.Expr) int {
	ty := c.typeOfArg(a)
	return c.t.eng.tag(ty)
}

// typeOfArg: a type given as a string literal ("int", "float64", "*github.com/x/y.T", "map[string]interface {}").
func (c *evalCtx) typeOfArg(a ast.Expr) types.Type {
	bl, ok := a.(*ast.BasicLit)
	if !ok || bl.Kind != token.STRING {
		c.fail("type argument must be a string literal")
	}
	name := unquote(bl.Value)
	ty := c.t.eng.typeByName(name, c.env.pkg)
	if ty == nil {
		c.fail("unknown type %q", name)
	}
	return ty
}

func (c *evalCtx) ghostKey(kind string, v *sv) string {
	switch kind {
	case "ref":
		if v.sort == "int" {
			return c.rv1(v)
		}
		r := refOf(v.sort, c.rv1(v))
		if r == "" {
			c.fail("ghost key of sort %q is not a reference", v.sort)
		}
		return r
	case "int":
		return c.rv1(v)
	case "str":
		if v.sort != "str" {
			c.fail("ghost key must be a string")
		}
		return c.rv1(v)
	case "seq":
		return c.toSeq(v)
	case "iface":
		return c.rv1(v)
	}
	c.fail("ghost key kind %s", kind)
	return ""
}

func (c *evalCtx) coerce(v *sv, want string) string {
	switch want {
	case "seq":
		return c.toSeq(v)
	case "ref":
		return c.ghostKey("ref", v)
	}
	if v.sort != ghostValSort(want) {
		c.fail("argument of sort %q where %q is expected", v.sort, want)
	}
	return c.rv1(v)
}

func (c *evalCtx) toSeq(v *sv) string {
	if v.sort == "seq" {
		return c.rv1(v)
	}
	return c.rv1(c.seqOf(v))
}

// seqOf: the byte sequence held by a []byte, a [N]byte in memory or as value, or a string.
func (c *evalCtx) seqOf(v *sv) *sv {
	if v.sort == "seq" {
		return v
	}
	if v.sort == "str" {
		return &sv{sort: "seq", terms: []string{"(seq_of_str " + c.rv1(v) + ")"}}
	}
	if v.sort == "slice" {
		s := c.rv1(v)
		return &sv{sort: "seq", terms: []string{fmt.Sprintf("(seqof (select (select %s (styp %s)) (sref %s)) (soff %s) (slen %s))", c.t.H(c.cur, "H_int"), s, s, s, s)}}
	}
	if v.ty != nil {
		if a, ok := v.ty.Underlying().(*types.Array); ok && leafSort(a.Elem()) == "int" {
			if v.addr != "" && v.terms == nil {
				pa, pb, pc := locParts(v.addr)
				return &sv{sort: "seq", terms: []string{fmt.Sprintf("(seqof (select (select %s %s) %s) %s %d)", c.t.H(c.cur, "H_int"), pa, pb, pc, a.Len())}}
			}
			// array value: fixed-size sequence constructor over the components
			if seqNSizes[int(a.Len())] {
				return &sv{sort: "seq", terms: []string{fmt.Sprintf("(seq%d %s)", a.Len(), strings.Join(v.terms, " "))}}
			}
			arr := "((as const (Array Int Int)) 0)"
			for i, tm := range v.terms {
				arr = fmt.Sprintf("(store %s %d %s)", arr, i, tm)
			}
			return &sv{sort: "seq", terms: []string{fmt.Sprintf("(seqof %s 0 %d)", arr, a.Len())}}
		}
	}
	c.fail("seq() of %v", v.ty)
	return nil
}

func (c *evalCtx) objUnchanged(v *sv) string {
	pt, ok := v.ty.Underlying().(*types.Pointer)
	if !ok {
		c.fail("sameobj needs a pointer")
	}
	p := c.rv1(v)
	var conj []string
	for _, ls := range uniq(leaves(pt.Elem())) {
		h := "H_" + ls
		conj = append(conj, fmt.Sprintf("(= (select (select %s (ltyp %s)) (lref %s)) (select (select %s (ltyp %s)) (lref %s)))", c.t.H(c.cur, h), p, p, c.t.H(c.old, h), p, p))
	}
	return "(and " + strings.Join(conj, " ") + ")"
}

// quant: forall(i, lo, hi, body) / exists(i, lo, hi, body) with i an integer in [lo, hi).
// When the body indexes a slice/array with exactly `i`, the bound SMT variable is the absolute cell index of
// that access and is used as the trigger (DESIGN 2.5).
func (c *evalCtx) quant(kind string, args []ast.Expr) *sv {
	if len(args) != 4 {
		c.fail("%s(i, lo, hi, body)", kind)
	}
	id, ok := args[0].(*ast.Ident)
	if !ok {
		c.fail("%s: first argument must be an identifier", kind)
	}
	lo := c.rv1(c.eval(args[1]))
	hi := c.rv1(c.eval(args[2]))
	c.t.nfresh++
	qv := fmt.Sprintf("q%d_%s", c.t.nfresh, id.Name)
	// anchor search
	var anchor *ast.IndexExpr
	ast.Inspect(args[3], func(n ast.Node) bool {
		if anchor != nil {
			return false
		}
		if ie, ok := n.(*ast.IndexExpr); ok {
			if ii, ok := ie.Index.(*ast.Ident); ok && ii.Name == id.Name {
				anchor = ie
				return false
			}
		}
		return true
	})
	ne := c.env.child()
	ne.inQuant = true
	nc := *c
	nc.env = ne
	var rangeC, pattern, seedSort, seedOff string
	anchored := false
	if anchor != nil {
		// evaluate the base outside the binder to get offset & stride
		func() {
			defer func() {
				if r := recover(); r != nil {
					anchored = false
				}
			}()
			base := c.eval(anchor.X)
			var off, obj string
			var el types.Type
			switch u := base.ty.Underlying().(type) {
			case *types.Slice:
				s := c.rv1(base)
				off, el = "(soff "+s+")", u.Elem()
				obj = fmt.Sprintf("(styp %s)) (sref %s)", s, s)
				if tc := c.t.sliceTagConst(base.ty); tc != "" {
					obj = fmt.Sprintf("%s) (sref %s)", tc, s)
				}
			case *types.Array:
				if base.addr == "" || base.terms != nil {
					return
				}
				la, lb, lc := locParts(base.addr)
				off, el = lc, u.Elem()
				obj = fmt.Sprintf("%s) %s", la, lb)
			default:
				return
			}
			if stride(el) != 1 {
				return
			}
			ls := leafSort(el)
			// i == qv - off
			ne.vars[id.Name] = intSV(fmt.Sprintf("(- %s %s)", qv, off))
			rangeC = fmt.Sprintf("(and (<= (+ %s %s) %s) (< %s (+ %s %s)))", off, lo, qv, qv, off, hi)
			pattern = fmt.Sprintf("(select (select (select %s %s) %s)", c.t.H(c.cur, "H_"+ls), obj, qv)
			seedSort, seedOff = smtSort(ls), fmt.Sprintf("(+ %s %s)", off, lo)
			anchored = true
		}()
	}
	if !anchored {
		ne.vars[id.Name] = intSV(qv)
		rangeC = fmt.Sprintf("(and (<= %s %s) (< %s %s))", lo, qv, qv, hi)
	}
	var wf []string
	nc.wf = &wf
	body := nc.rv1(nc.eval(args[3]))
	if len(wf) > 0 && c.mode != 0 {
		w := "(and " + strings.Join(uniq(wf), " ") + ")"
		usable := (c.mode > 0) == (kind == "forall")
		if kind == "forall" {
			if usable {
				body = fmt.Sprintf("(and %s %s)", w, body)
			} else {
				body = fmt.Sprintf("(=> %s %s)", w, body)
			}
		} else {
			// exists: used (assumed) -> the witness is well typed; to be proved -> may assume it
			if c.mode > 0 {
				body = fmt.Sprintf("(and %s %s)", w, body)
			} else {
				body = fmt.Sprintf("(and (=> %s %s) true)", w, body)
			}
		}
	}
	pat := ""
	if anchored {
		pat = pattern
	} else {
		// use a ghost/spec-function application or select that contains the bound variable as trigger when there is one
		pat = findPattern(body, qv)
	}
	var q string
	if kind == "forall" {
		q = fmt.Sprintf("(=> %s %s)", rangeC, body)
	} else {
		q = fmt.Sprintf("(and %s %s)", rangeC, body)
	}
	c.t.nfresh++
	q = cseLet(q, fmt.Sprintf("cs%d", c.t.nfresh))
	if pat != "" {
		var ps strings.Builder
		for _, p := range strings.Split(pat, "\x00") {
			fmt.Fprintf(&ps, " :pattern (%s)", p)
		}
		qt := fmt.Sprintf("(%s ((%s Int)) (! %s%s))", kind, qv, q, ps.String())
		if kind == "exists" && c.mode < 0 && anchored && seedSort != "" {
			// An existential that has to be proved becomes, negated, a universal fact that E-matching only instantiates for
			// cells that occur as ground terms. The first cells of the range are offered as candidate witnesses: the goal is
			// weakened by nothing (seedp_* is true everywhere, prelude) but its negation now mentions those cells.
			var seeds []string
			for k := 0; k < existsSeeds; k++ {
				seeds = append(seeds, fmt.Sprintf("(seedp_%s %s (+ %s %d)))", seedSort, pattern[:strings.LastIndex(pattern, " ")], seedOff, k))
			}
			qt = fmt.Sprintf("(or %s (not (and %s)))", qt, strings.Join(seeds, " "))
		}
		return boolSV(qt)
	}
	return boolSV(fmt.Sprintf("(%s ((%s Int)) %s)", kind, qv, q))
}

// existsSeeds: number of leading cells of the range offered as witnesses of an existential goal over a slice or array
const existsSeeds = 24

// findPattern picks the smallest application term `(f ... qv ...)` with f uninterpreted/select that has qv as a direct argument.
func findPattern(body, qv string) string {
	var all []string
	seen := map[string]bool{}
	best := ""
	for i := 0; i < len(body); i++ {
		if body[i] != '(' {
			continue
		}
		// matching paren
		d := 0
		j := i
		for ; j < len(body); j++ {
			if body[j] == '(' {
				d++
			} else if body[j] == ')' {
				d--
				if d == 0 {
					break
				}
			}
		}
		if j >= len(body) {
			break
		}
		term := body[i : j+1]
		head := term[1:]
		if k := strings.IndexAny(head, " )"); k >= 0 {
			head = head[:k]
		}
		okHead := head == "select" || strings.HasPrefix(head, "sf_") || head == "sat" || head == "seq_at" || strings.HasPrefix(head, "mapget_")
		if !okHead {
			continue
		}
		// qv must be a direct argument
		if strings.HasSuffix(term, " "+qv+")") || strings.Contains(term, " "+qv+" ") {
			direct := false
			// check top-level args
			args := splitSexprArgs(term)
			for _, a := range args[1:] {
				if a == qv {
					direct = true
				}
			}
			if direct && !strings.Contains(term, "ite") && !seen[term] && !reCSName.MatchString(term) {
				seen[term] = true
				all = append(all, term)
			}
		}
	}
	_ = best
	if len(all) == 0 {
		// fallback: heap cell terms whose index is an arithmetic expression over the bound variable (composite elements:
		// index = off + i*stride + field); the same shape is produced for the program's own accesses
		for i := 0; i < len(body); i++ {
			if !strings.HasPrefix(body[i:], "(select (select (select ") {
				continue
			}
			d, j := 0, i
			for ; j < len(body); j++ {
				if body[j] == '(' {
					d++
				} else if body[j] == ')' {
					d--
					if d == 0 {
						break
					}
				}
			}
			if j >= len(body) {
				break
			}
			term := body[i : j+1]
			args := splitSexprArgs(term)
			if len(args) != 3 {
				continue
			}
			idx := args[2]
			okIdx := strings.HasPrefix(idx, "(cidx ") && !strings.Contains(idx, "select") && !strings.Contains(idx, "ite")
			if okIdx {
				ca := splitSexprArgs(idx)
				okIdx = len(ca) == 5 && ca[3] == qv
			}
			if okIdx && !strings.Contains(args[1], qv) && !seen[term] {
				seen[term] = true
				all = append(all, term)
			}
		}
	}
	// alternatives: every minimal candidate (none containing another candidate), at most 4
	var out []string
	for _, a := range all {
		minimal := true
		for _, b := range all {
			if a != b && strings.Contains(a, b) {
				minimal = false
			}
		}
		if minimal && len(out) < 4 {
			out = append(out, a)
		}
	}
	return strings.Join(out, "\x00")
}

func splitSexprArgs(term string) []string {
	inner := term[1 : len(term)-1]
	var out []string
	d := 0
	last := 0
	for i := 0; i < len(inner); i++ {
		switch inner[i] {
		case '(':
			d++
		case ')':
			d--
		case ' ':
			if d == 0 {
				if i > last {
					out = append(out, inner[last:i])
				}
				last = i + 1
			}
		}
	}
	if last < len(inner) {
		out = append(out, inner[last:])
	}
	return out
}

var seqNSizes = map[int]bool{2: true, 8: true, 12: true, 16: true, 32: true, 64: true}

// quantV: forallv("x:seq y:str n:int", body [, trigger terms...])
func (c *evalCtx) quantV(kind string, args []ast.Expr) *sv {
	if len(args) < 2 {
		c.fail("%s(decls, body, triggers...)", kind)
	}
	bl, ok := args[0].(*ast.BasicLit)
	if !ok {
		c.fail("%s: first argument must be a string of name:sort declarations", kind)
	}
	ne := c.env.child()
	ne.inQuant = true
	nc := *c
	nc.env = ne
	var binders []string
	for _, d := range strings.Fields(unquote(bl.Value)) {
		p := strings.SplitN(d, ":", 2)
		if len(p) != 2 {
			c.fail("bad declaration %q", d)
		}
		c.t.nfresh++
		qv := fmt.Sprintf("q%d_%s", c.t.nfresh, p[0])
		sort := ghostValSort(p[1])
		var ty types.Type
		switch sort {
		case "int":
			ty = types.Typ[types.Int]
		case "str":
			ty = types.Typ[types.String]
		case "bool":
			ty = types.Typ[types.Bool]
		}
		ne.vars[p[0]] = &sv{sort: sort, terms: []string{qv}, ty: ty}
		c.t.qsort[qv] = smtSort(sort)
		binders = append(binders, fmt.Sprintf("(%s %s)", qv, smtSort(sort)))
	}
	var wf []string
	nc.wf = &wf
	body := nc.rv1(nc.eval(args[1]))
	if len(wf) > 0 && c.mode != 0 {
		// type facts of the memory cells the body reads (as in forall/exists over a range): available when the quantified
		// statement is used, assumable when it has to be proved
		w := "(and " + strings.Join(uniq(wf), " ") + ")"
		if kind == "forallv" {
			if c.mode > 0 {
				body = fmt.Sprintf("(and %s %s)", w, body)
			} else {
				body = fmt.Sprintf("(=> %s %s)", w, body)
			}
		} else if c.mode > 0 {
			body = fmt.Sprintf("(and %s %s)", w, body)
		} else {
			body = fmt.Sprintf("(=> %s %s)", w, body)
		}
	}
	var pats []string
	for _, a := range args[2:] {
		v := nc.eval(a)
		pats = append(pats, nc.rv(v)...)
	}
	q := "forall"
	if kind == "existsv" {
		q = "exists"
	}
	if len(pats) > 0 {
		return boolSV(fmt.Sprintf("(%s (%s) (! %s :pattern (%s)))", q, strings.Join(binders, " "), body, strings.Join(pats, " ")))
	}
	return boolSV(fmt.Sprintf("(%s (%s) %s)", q, strings.Join(binders, " "), body))
}

var reQVar = regexp.MustCompile(`\bq[0-9]+_[A-Za-z0-9_]+\b`)
var reQBinder = regexp.MustCompile(`\((q[0-9]+_[A-Za-z0-9_]+) (?:Int|BSeq|GStr|Bool|Iface|Loc|Slice|F64|F32)\)`)

// nameBool abbreviates a large boolean term produced by a predicate: a named constant (or, when it mentions bound
// variables, a function of them) defined once at the current point of the script. Keeps scripts linear in the number
// of predicate uses instead of exponential in their nesting depth.
func (c *evalCtx) nameBool(pred string, v *sv) *sv {
	if v.sort != "bool" || len(v.terms) != 1 || len(v.terms[0]) < 400 || c.t.dryRun > 0 {
		return v
	}
	body := v.terms[0]
	if d, ok := c.t.predDefs[body]; ok {
		return boolSV(d)
	}
	var vars []string
	seen := map[string]bool{}
	// names bound by a quantifier inside the body are not free (every binder has a unique name)
	for _, m := range reQBinder.FindAllStringSubmatch(body, -1) {
		seen[m[1]] = true
	}
	for _, m := range reQVar.FindAllString(body, -1) {
		if !seen[m] {
			seen[m] = true
			vars = append(vars, m)
		}
	}
	if len(vars) > 0 {
		return v
	}
	c.t.nfresh++
	n := fmt.Sprintf("pd_%s_%s%d", sanitize(pred), c.t.pfx, c.t.nfresh)
	if len(vars) == 0 {
		fmt.Fprintf(&c.t.decls, "(declare-const %s Bool)\n", n)
		fmt.Fprintf(&c.t.out, "(assert (= %s %s))\n", n, body)
		c.t.predDefs[body] = n
		return boolSV(n)
	}
	var sorts, binders []string
	for _, x := range vars {
		so := c.t.qsort[x]
		if so == "" {
			so = "Int"
		}
		sorts = append(sorts, so)
		binders = append(binders, fmt.Sprintf("(%s %s)", x, so))
	}
	app := fmt.Sprintf("(%s %s)", n, strings.Join(vars, " "))
	fmt.Fprintf(&c.t.decls, "(declare-fun %s (%s) Bool)\n", n, strings.Join(sorts, " "))
	fmt.Fprintf(&c.t.out, "(assert (forall (%s) (! (= %s %s) :pattern (%s))))\n", strings.Join(binders, " "), app, body, app)
	c.t.predDefs[body] = app
	return boolSV(app)
}

// small abbreviates a large term (typically a pointer reached through several loads) by a named constant, or by a
// function of the quantifier variables it mentions, defined at the current point of the script.
func (c *evalCtx) small(term, sort string) string {
	if len(term) < 160 || c.t.dryRun > 0 {
		return term
	}
	if d, ok := c.t.predDefs["T:"+term]; ok {
		return d
	}
	var vars []string
	seen := map[string]bool{}
	for _, m := range reQBinder.FindAllStringSubmatch(term, -1) {
		seen[m[1]] = true
	}
	for _, m := range reQVar.FindAllString(term, -1) {
		if !seen[m] {
			seen[m] = true
			vars = append(vars, m)
		}
	}
	if len(vars) > 0 {
		return term // under a binder: stays a plain term (function definitions with axioms proved too fragile for matching)
	}
	c.t.nfresh++
	n := fmt.Sprintf("tm_%s%d", c.t.pfx, c.t.nfresh)
	if len(vars) == 0 {
		fmt.Fprintf(&c.t.decls, "(declare-const %s %s)\n", n, sort)
		fmt.Fprintf(&c.t.out, "(assert (= %s %s))\n", n, term)
		c.t.predDefs["T:"+term] = n
		return n
	}
	var sorts, binders []string
	for _, x := range vars {
		so := c.t.qsort[x]
		if so == "" {
			so = "Int"
		}
		sorts = append(sorts, so)
		binders = append(binders, fmt.Sprintf("(%s %s)", x, so))
	}
	app := fmt.Sprintf("(%s %s)", n, strings.Join(vars, " "))
	fmt.Fprintf(&c.t.decls, "(declare-fun %s (%s) %s)\n", n, strings.Join(sorts, " "), sort)
	fmt.Fprintf(&c.t.out, "(assert (forall (%s) (! (= %s %s) :pattern (%s))))\n", strings.Join(binders, " "), app, term, app)
	c.t.predDefs["T:"+term] = app
	return app
}
