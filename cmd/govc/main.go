package main

import (
	"sync/atomic"
	"context"
	"regexp"
	"runtime"
	"encoding/json"
	"flag"
	"fmt"
	"go/ast"
	"os"
	"path/filepath"
	"sort"
	"strings"
	"sync"
	"time"

	"golang.org/x/tools/go/ssa"
)

type FuncResult struct {
	Key         string
	Obls        []*Obligation
	Fatal       []string
	Vacuous     []string
	Abstracted  map[string]int
	Unknown     []string // callees without contract
	Trusted     []string
	Contracts   []string
	SolverMs    int64
	SMTBytes    int
	Blocks      int
	script      string // prelude-less body for re-use
}

type Options struct {
	Repo     string
	Verif    string
	PerQuery time.Duration
	Thorough bool
	Light    bool // thorough tier with small budgets (set for properties with more than 100 functions)
	Seed     int
	Verbose  bool
	KeepSMT  string
	ExpectFail map[string]bool // "function#obligation" of listed known findings (all properties): no retries spent on them
}

func (e *Engine) verifyFunction(fn *ssa.Function, opt *Options) *FuncResult {
	t := newTr(e, fn)
	res := &FuncResult{Key: fn.String(), Blocks: len(fn.Blocks)}
	if err := t.run(); err != nil {
		res.Fatal = append(res.Fatal, err.Error())
	}
	res.Fatal = append(res.Fatal, t.fatal...)
	if t.own != nil && !t.stopped {
		for _, ac := range t.own.Asserts2 {
			if !t.assertsSeen[ac.Label] {
				res.Fatal = append(res.Fatal, fmt.Sprintf("assert %s (%s): call %s#%d not found", ac.Label, ac.Where, ac.Callee, ac.N))
			}
		}
		for _, gs := range t.own.GhostSets {
			if !t.ghostSetSeen[gs.Label] {
				res.Fatal = append(res.Fatal, fmt.Sprintf("ghostset %s (%s): attachment point %s%s#%d not found", gs.Label, gs.Where, gs.Store, gs.Callee, gs.N))
			}
		}
	}
	res.Abstracted = t.abstracted
	for k := range t.unknownCallees {
		res.Unknown = append(res.Unknown, k)
	}
	for k := range t.trustedUsed {
		res.Trusted = append(res.Trusted, k)
	}
	for k := range t.contractsUsed {
		res.Contracts = append(res.Contracts, k)
	}
	sort.Strings(res.Unknown)
	sort.Strings(res.Trusted)
	sort.Strings(res.Contracts)
	res.Obls = t.obls
	if len(res.Fatal) > 0 {
		for _, o := range res.Obls {
			o.Status = "error"
			o.Note = "not generated soundly: " + res.Fatal[0]
		}
		return res
	}
	// axioms of the spec library. An axiom whose trigger mentions a specification function that occurs nowhere in this
	// function's script (nor in an axiom that is kept) can never be instantiated here: it is left out (fewer hypotheses are
	// always sound; it keeps vocabularies the function does not use - TLV8, little-endian bytes, ... - out of the search).
	type axText struct {
		name, text string
		patSyms  []string
		bodySyms []string
		used     bool
	}
	var axs []*axText
	for _, ax := range e.specs.Axioms {
		term := ax.Raw
		if term == "" {
			env := &senv{t: t, vars: map[string]*sv{}, lets: map[string]ast.Expr{}}
			var err error
			term, err = t.evalAssume(ax.Expr, env, t.oldHeaps, t.oldHeaps)
			if err != nil {
				res.Fatal = append(res.Fatal, fmt.Sprintf("axiom %s: %v", ax.Name, err))
				continue
			}
		}
		a := &axText{name: ax.Name, text: term}
		pats := ""
		for _, m := range rePatternPart.FindAllString(term, -1) {
			pats += m
		}
		a.patSyms = uniq(reSpecSym.FindAllString(pats, -1))
		a.bodySyms = uniq(reSpecSym.FindAllString(term, -1))
		axs = append(axs, a)
	}
	scriptText := t.decls.String() + t.out.String()
	for _, o := range t.obls {
		scriptText += o.Guard + " " + o.Goal + "\n"
	}
	present := map[string]bool{}
	for _, sy := range reSpecSym.FindAllString(scriptText, -1) {
		present[sy] = true
	}
	for changed := true; changed; {
		changed = false
		for _, a := range axs {
			if a.used {
				continue
			}
			ok := true
			for _, sy := range a.patSyms {
				if !present[sy] {
					ok = false
				}
			}
			if len(a.patSyms) == 0 {
				// no specification function in the trigger (or no trigger): relevant if it shares a symbol with the script
				ok = len(a.bodySyms) == 0
				for _, sy := range a.bodySyms {
					if present[sy] {
						ok = true
					}
				}
			}
			if ok {
				a.used = true
				changed = true
				for _, sy := range a.bodySyms {
					present[sy] = true
				}
			}
		}
	}
	var axioms strings.Builder
	for _, a := range axs {
		if a.used {
			fmt.Fprintf(&axioms, "(assert %s)\n", a.text)
		}
	}
	body := t.decls.String() + axioms.String() + t.out.String()
	// axioms-only consistency probe: the specification vocabulary (prelude + every axiom) must not be contradictory by
	// itself. Run once per process with a large budget (an inconsistency of two crypto axioms took z3 25 s to find).
	axiomProbeOnce.Do(func() {
		axiomProbeWG.Add(1)
		go func() {
			defer axiomProbeWG.Done()
			txt := t.decls.String() + axioms.String()
			for _, solver := range []string{"z3-new", "cvc5"} {
				hdr := e.buildPrelude(solver, txt)
				// quick tier: a short look (a contradiction among the axioms usually shows within seconds or not at all);
				// thorough tier: the large budget (one inconsistency of two crypto axioms took z3 25 s to find)
				rl, wall := rlimitFirst, 20*time.Second
				if opt.Thorough {
					rl, wall = rlimitRetry, wallRetry
				}
				if solver == "z3-new" {
					hdr += fmt.Sprintf("(set-option :rlimit %d)\n", rl)
				}
				f := writeScratch("axioms_"+solver+".smt2", hdr+txt+"(check-sat)\n")
				r := runSolverLimited(solver, f, wall)
				if len(r.lines) > 0 && r.lines[0] == "unsat" && len(r.errors) == 0 {
					axiomProbeMu.Lock()
					axiomProbeResult = append(axiomProbeResult, "the axioms of the specification vocabulary are contradictory by themselves ("+solver+")")
					axiomProbeMu.Unlock()
				}
			}
		}()
	})
	e.discharge(res, t, body, opt)
	return res
}

var (
	axiomProbeOnce   sync.Once
	axiomProbeWG     sync.WaitGroup
	axiomProbeMu     sync.Mutex
	axiomProbeResult []string
)

func main() {
	if len(os.Args) < 2 {
		fmt.Fprintln(os.Stderr, "usage: govc check|verify|list ...")
		os.Exit(2)
	}
	defer cleanupScratch()
	switch os.Args[1] {
	case "check":
		rc := cmdCheck(os.Args[2:])
		cleanupScratch() // os.Exit does not run deferred calls
		os.Exit(rc)
	case "verify":
		rc := cmdVerify(os.Args[2:])
		cleanupScratch() // os.Exit does not run deferred calls
		os.Exit(rc)
	case "list":
		rc := cmdList(os.Args[2:])
		cleanupScratch() // os.Exit does not run deferred calls
		os.Exit(rc)
	default:
		fmt.Fprintln(os.Stderr, "unknown command", os.Args[1])
		os.Exit(2)
	}
}

func commonFlags(fs *flag.FlagSet, opt *Options, overlays *string) {
	fs.StringVar(&opt.Repo, "repo", "/repo", "repository root")
	fs.StringVar(&opt.Verif, "verif", "/verif", "verif root")
	fs.DurationVar(&opt.PerQuery, "timeout", 10*time.Second, "per obligation solver limit")
	fs.BoolVar(&opt.Verbose, "v", false, "verbose")
	fs.StringVar(&opt.KeepSMT, "keep", "", "directory to keep SMT scripts in")
	fs.StringVar(overlays, "overlay", "", "comma separated file=replacement pairs")
}

func parseOverlays(s string) map[string][]byte {
	ov := map[string][]byte{}
	if s == "" {
		return ov
	}
	for _, p := range strings.Split(s, ",") {
		kv := strings.SplitN(p, "=", 2)
		if len(kv) != 2 {
			continue
		}
		b, err := os.ReadFile(kv[1])
		if err != nil {
			fmt.Fprintln(os.Stderr, "overlay:", err)
			os.Exit(2)
		}
		ov[kv[0]] = b
	}
	return ov
}

func cmdList(args []string) int {
	opt := &Options{}
	var ov string
	fs := flag.NewFlagSet("list", flag.ExitOnError)
	commonFlags(fs, opt, &ov)
	fs.Parse(args)
	eng, err := loadRepo(opt.Repo, opt.Verif, parseOverlays(ov))
	if err != nil {
		fmt.Fprintln(os.Stderr, err)
		return 2
	}
	var keys []string
	for k, f := range eng.specs.Funcs {
		tag := "contract"
		if f.Trusted {
			tag = "trusted"
		}
		keys = append(keys, tag+"  "+k)
	}
	sort.Strings(keys)
	for _, k := range keys {
		fmt.Println(k)
	}
	for _, e := range eng.specs.Errors {
		fmt.Println("SPEC ERROR:", e)
	}
	for _, e := range eng.checkSpecBindings() {
		fmt.Println("BINDING:", e)
	}
	return 0
}

func cmdVerify(args []string) int {
	opt := &Options{}
	var ov string
	fs := flag.NewFlagSet("verify", flag.ExitOnError)
	commonFlags(fs, opt, &ov)
	fs.Parse(args)
	if sd := os.Getenv("VERIF_SEED"); sd != "" {
		fmt.Sscanf(sd, "%d", &opt.Seed)
	}
	t0 := time.Now()
	eng, err := loadRepo(opt.Repo, opt.Verif, parseOverlays(ov))
	if err != nil {
		fmt.Fprintln(os.Stderr, err)
		return 2
	}
	fmt.Printf("loaded in %v\n", time.Since(t0).Round(time.Millisecond))
	for _, e := range eng.specs.Errors {
		fmt.Println("SPEC ERROR:", e)
	}
	for _, e := range eng.checkSpecBindings() {
		fmt.Println("BINDING:", e)
	}
	targets := fs.Args()
	var fns []*ssa.Function
	for _, tname := range targets {
		found := false
		for k, f := range eng.byName {
			if k == tname || (strings.Contains(k, hcPath) && strings.HasSuffix(k, tname)) {
				fns = append(fns, f)
				found = true
			}
		}
		if !found {
			fmt.Println("no such function:", tname)
		}
	}
	if len(targets) == 0 {
		for k, fsx := range eng.specs.Funcs {
			if !fsx.Trusted && !strings.HasPrefix(k, "invoke:") {
				if f := eng.byName[k]; f != nil {
					fns = append(fns, f)
				}
			}
		}
	}
	sort.Slice(fns, func(i, j int) bool { return fns[i].String() < fns[j].String() })
	results := eng.verifyAll(fns, opt)
	bad := 0
	for _, r := range results {
		printResult(r, opt.Verbose)
		for _, o := range r.Obls {
			if o.Status != "unsat" {
				bad++
			}
		}
		bad += len(r.Fatal)
	}
	if bad > 0 {
		return 1
	}
	return 0
}

func (e *Engine) verifyAll(fns []*ssa.Function, opt *Options) []*FuncResult {
	results := make([]*FuncResult, len(fns))
	var wg sync.WaitGroup
	sem := make(chan struct{}, 6)
	for i, fn := range fns {
		wg.Add(1)
		go func(i int, fn *ssa.Function) {
			defer wg.Done()
			sem <- struct{}{}
			defer func() { <-sem }()
			results[i] = e.verifyFunction(fn, opt)
		}(i, fn)
	}
	wg.Wait()
	return results
}

func printResult(r *FuncResult, verbose bool) {
	ok := 0
	for _, o := range r.Obls {
		if o.Status == "unsat" {
			ok++
		}
	}
	fmt.Printf("\n=== %s  (%d blocks, %d obligations, smt %d bytes, solver %d ms)\n", r.Key, r.Blocks, len(r.Obls), r.SMTBytes, r.SolverMs)
	for _, f := range r.Fatal {
		fmt.Println("   FATAL:", f)
	}
	for _, o := range r.Obls {
		if o.Status != "unsat" {
			fmt.Printf("   FAILED %-60s -> %s [%s] %s %s\n", o.Name, o.Status, o.Where, o.Solver, o.Note)
			if verbose && o.Model != "" {
				fmt.Println("      model:", strings.ReplaceAll(o.Model, "\n", "\n             "))
			}
		} else if verbose {
			fmt.Printf("   ok     %-60s (%s, %d ms)\n", o.Name, o.Solver, o.Millis)
		}
	}
	fmt.Printf("   discharged %d / %d\n", ok, len(r.Obls))
	for _, v := range r.Vacuous {
		fmt.Println("   VACUITY:", v)
	}
	if len(r.Unknown) > 0 {
		fmt.Println("   callees without contract (havoc):", strings.Join(r.Unknown, ", "))
	}
	if verbose && len(r.Abstracted) > 0 {
		fmt.Println("   abstracted:", r.Abstracted)
	}
}

// ---------------------------------------------------------------- discharge

// at most one solver process per core (minus one for the translator): oversubscribed solvers run into wall-clock limits
var solverSem = make(chan struct{}, maxInt(2, runtime.NumCPU()-2))

func maxInt(a, b int) int {
	if a > b {
		return a
	}
	return b
}

// Solver budgets. z3 is limited by its deterministic resource counter (rlimit), not by time: the verdict on a given
// script then does not depend on how fast or how loaded the machine is. Wall-clock limits are only a safety net.
const (
	rlimitFirst  = 25000000  // first attempt (roughly 6-10 s of an idle core)
	rlimitRetry  = 200000000 // last attempt for obligations every solver left open (up to maxRetry per function)
	wallFirst    = 150 * time.Second
	wallRetry    = 240 * time.Second
	wallSecond   = 75 * time.Second // second opinions (z3 4.8.12, cvc5): helpful extras, limited by time
	maxRetry     = 4
	// Portfolio for what the first attempt leaves open: three more z3 runs that differ only in the random seed. Each is
	// deterministic (rlimit); together they make the verdict far less sensitive to the one seed of the first attempt.
	rlimitPortfolio = 60000000
	wallPortfolio   = 120 * time.Second
)

// number of obligations of this run that the first attempt left open
var openInRun int64

const maxOpenInRun = 48

func runSolverLimited(solver, file string, timeout time.Duration) solverResult {
	return runSolverLimitedCtx(context.Background(), solver, file, timeout)
}

func runSolverLimitedCtx(ctx context.Context, solver, file string, timeout time.Duration) solverResult {
	select {
	case solverSem <- struct{}{}:
	case <-ctx.Done():
		return solverResult{}
	}
	defer func() { <-solverSem }()
	if ctx.Err() != nil {
		return solverResult{}
	}
	return runSolverCtx(ctx, solver, file, timeout)
}

func (e *Engine) discharge(res *FuncResult, t *tr, body string, opt *Options) {
	var vmu sync.Mutex
	if len(res.Obls) == 0 && len(t.returns) == 0 {
		return
	}
	per := opt.PerQuery
	if per == 0 {
		per = 10 * time.Second
	}
	// One non-incremental script per obligation: the facts that precede it in program order (earlier obligations
	// assumed), then its negation. Non-incremental solving is far more robust than push/pop (measured: 0.04 s vs unknown).
	var litSB strings.Builder
	litSB.WriteString(body)
	for _, o := range res.Obls {
		litSB.WriteString(o.Guard)
		litSB.WriteString(" ")
		litSB.WriteString(o.Goal)
		litSB.WriteString("\n")
	}
	litText := litSB.String()
	header := func(solver string, limit time.Duration) string {
		var sb strings.Builder
		sb.WriteString(e.buildPrelude(solver, litText))
		if solver != "cvc5" {
			seed := opt.Seed % 1000000
			if strings.HasPrefix(solver, "z3-new") {
				rl := rlimitFirst
				if solver == "z3-new-retry" {
					rl = rlimitRetry
				}
				if strings.HasPrefix(solver, "z3-new-p") {
					// portfolio member: same script, another random seed (and so another instantiation order), larger budget
					rl = rlimitPortfolio
					seed = seed + 7919*int(solver[len(solver)-1]-'0')
				}
				fmt.Fprintf(&sb, "(set-option :rlimit %d)\n", rl)
			} else {
				fmt.Fprintf(&sb, "(set-option :timeout %d)\n", limit.Milliseconds())
			}
			if seed != 0 {
				fmt.Fprintf(&sb, "(set-option :smt.random_seed %d)\n(set-option :sat.random_seed %d)\n", seed, seed)
			}
		}
		return sb.String()
	}
	hdr := map[string]string{}
	for _, s := range []string{"z3-new", "z3-new-retry", "z3-new-p1", "z3-new-p2", "z3-new-p3", "z3", "cvc5"} {
		hdr[s] = header(s, per)
	}
	base := sanitize(res.Key)
	if len(base) > 100 {
		base = base[len(base)-100:]
	}
	res.SMTBytes = len(hdr["z3-new"]) + len(body)
	// prefixes
	prefixes := make([]string, len(res.Obls))
	{
		var sb strings.Builder
		for _, line := range strings.Split(body, "\n") {
			if strings.HasPrefix(line, ";;OBL ") {
				var k int
				fmt.Sscanf(line, ";;OBL %d", &k)
				prefixes[k] = sb.String()
				o := res.Obls[k]
				fmt.Fprintf(&sb, "(assert (=> %s %s))\n", o.Guard, o.Goal)
				continue
			}
			sb.WriteString(line)
			sb.WriteString("\n")
		}
		if opt.KeepSMT != "" {
			os.MkdirAll(opt.KeepSMT, 0755)
			os.WriteFile(filepath.Join(opt.KeepSMT, base+".smt2"), []byte(hdr["z3-new"]+sb.String()), 0644)
		}
		// vacuity: with everything assumed, is any return reachable?
		if len(t.returns) > 0 {
			full := sb.String()
			probe := fmt.Sprintf("(assert (or %s))\n(check-sat)\n", strings.Join(t.returns, " "))
			var vwg sync.WaitGroup
			for _, solver := range []string{"z3-new", "cvc5"} {
				vwg.Add(1)
				go func(solver string) {
					defer vwg.Done()
					// budget: quick - as for one obligation; thorough - the large retry budget (a contradiction between two
					// crypto axioms needed about 25 s of z3 in the context of Decrypt, and was invisible at 3 s)
					hs, wall := solver, 4*time.Second
					if opt.Thorough {
						wall = 60 * time.Second
						if opt.Light {
							wall = 10 * time.Second
						}
						if solver == "z3-new" {
							hs = "z3-new-retry"
						}
					}
					vf := writeScratch(base+"_vac_"+solver+".smt2", hdr[hs]+full+probe)
					vr := runSolverLimited(solver, vf, wall)
					vmu.Lock()
					defer vmu.Unlock()
					res.SolverMs += vr.millis
					if len(vr.lines) > 0 && vr.lines[0] == "unsat" && len(vr.errors) == 0 {
						res.Vacuous = append(res.Vacuous, "no return is reachable under the contract's assumptions: contradictory requires / assumed contracts / axioms ("+solver+")")
					}
				}(solver)
			}
			defer vwg.Wait()
		}
	}
	query := func(o *Obligation) string {
		return fmt.Sprintf("(assert (and %s (not %s)))\n(check-sat)\n(get-info :reason-unknown)\n", o.Guard, o.Goal)
	}
	var runCtx func(ctx context.Context, k int, solver string, limit time.Duration) (string, int64, []string)
	run := func(k int, solver string, limit time.Duration) (string, int64, []string) {
		return runCtx(context.Background(), k, solver, limit)
	}
	runCtx = func(ctx context.Context, k int, solver string, limit time.Duration) (string, int64, []string) {
		o := res.Obls[k]
		scr := hdr[solver] + prefixes[k] + query(o)
		f := writeScratch(fmt.Sprintf("%s_%d_%s.smt2", base, k, solver), scr)
		if opt.KeepSMT != "" && solver == "z3-new" {
			os.WriteFile(filepath.Join(opt.KeepSMT, fmt.Sprintf("%s__%s.smt2", base, sanitize(o.Name))), []byte(scr), 0644)
		}
		if opt.KeepSMT != "" && solver == "z3-new-retry" {
			os.WriteFile(filepath.Join(opt.KeepSMT, fmt.Sprintf("%s__%s.retry.smt2", base, sanitize(o.Name))), []byte(scr), 0644)
		}
		r := runSolverLimitedCtx(ctx, solver, f, limit)
		os.Remove(f)
		st := "unknown"
		if len(r.lines) > 0 {
			st = r.lines[0]
		}
		if st == "unknown" && len(r.lines) > 1 && strings.Contains(r.lines[1], "incomplete") {
			// z3 finished instantiating without finding a contradiction (as opposed to running out of its budget): another
			// seed or a larger budget saturates the same way
			st = "unknown(saturated)"
		}
		if st == "unsat" || st == "sat" {
			r.errors = nil // (get-info :reason-unknown) after a definite answer is an error message, not a failure
		}
		if len(r.errors) > 0 {
			st = "error"
		}
		return st, r.millis, r.errors
	}
	// Frame obligations ("what existed at entry and is not named by modifies is unchanged", per component heap or ghost) need
	// only the facts about that heap, about which objects existed, and the definitions of the terms these mention. They are
	// first tried on that slice of the script: fewer hypotheses can only make a proof harder, never wrong, and it keeps the
	// sequence / arithmetic axioms' instantiations (the source of the few diverging frame queries) out of the way.
	runSliced := func(k int) (string, int64) {
		o := res.Obls[k]
		heap := frameHeapOf(o.Name)
		if heap == "" {
			return "", 0
		}
		var total int64
		for _, minimal := range []bool{true, false} {
			scr := hdr["z3-new"] + sliceForFrame(prefixes[k], heap, o.Guard+" "+o.Goal, minimal) + query(o)
			f := writeScratch(fmt.Sprintf("%s_%d_slice.smt2", base, k), scr)
			r := runSolverLimited("z3-new", f, 20*time.Second)
			os.Remove(f)
			total += r.millis
			if len(r.lines) > 0 && len(r.errors) == 0 && r.lines[0] == "unsat" {
				return "unsat", total
			}
		}
		return "", total
	}
	var wg sync.WaitGroup
	nOpen := 0
	nRetry := 0
	gate := make(chan struct{}, 8) // obligations of one function in flight
	for k := range res.Obls {
		wg.Add(1)
		go func(k int) {
			defer wg.Done()
			o := res.Obls[k]
			gate <- struct{}{}
			defer func() { <-gate }()
			vmu.Lock()
			broken := nOpen > 12
			vmu.Unlock()
			if broken && !opt.ExpectFail[res.Key+"#"+o.Name] {
				// more than a dozen obligations of this function are open already: the function is reported anyway, the rest
				// is not attempted (a broken building block makes every remaining query slow)
				vmu.Lock()
				o.Status, o.Solver, o.Note = "unknown", "-", "not attempted: more than 12 obligations of this function are already open"
				vmu.Unlock()
				return
			}
			if o.Kind == "frame" {
				st, ms := runSliced(k)
				vmu.Lock()
				res.SolverMs += ms
				if st == "unsat" {
					o.Status, o.Solver, o.Millis = "unsat", "z3-new(sliced)", ms
				}
				vmu.Unlock()
				if st == "unsat" {
					return
				}
			}
			st, ms, errs := run(k, "z3-new", wallFirst)
			vmu.Lock()
			res.SolverMs += ms
			o.Status, o.Solver, o.Millis = st, "z3-new", ms
			if len(errs) > 0 {
				res.Fatal = append(res.Fatal, "solver error: "+errs[0])
			}
			vmu.Unlock()
			if st == "unsat" || st == "error" {
				if !opt.Thorough || st == "error" {
					return
				}
			}
			if st != "unsat" && opt.ExpectFail[res.Key+"#"+o.Name] {
				return // a listed known finding: no second opinions
			}
			if st != "unsat" {
				// a function with many open obligations is broken anyway: do not spend three solvers on each of them
				vmu.Lock()
				nOpen++
				over := nOpen > 12
				vmu.Unlock()
				// ... and a run in which dozens of obligations are open (a change that breaks a building block of many
				// functions) is decided: more solvers on each of them only cost time
				if atomic.AddInt64(&openInRun, 1) > maxOpenInRun {
					over = true
				}
				if over {
					return
				}
			}
			// second opinions, all at once: the seed portfolio of z3-new, z3 4.8.12 and cvc5 (always in thorough mode: cross-check)
			var swg sync.WaitGroup
			pctx, pcancel := context.WithCancel(context.Background())
			for _, solver := range []string{"z3-new-p1", "z3-new-p2", "z3-new-p3", "z3", "cvc5"} {
				if strings.HasPrefix(solver, "z3-new-p") && (st == "unsat" || st == "unknown(saturated)") {
					continue // thorough cross-check / saturated first attempt: other solvers only
				}
				swg.Add(1)
				go func(solver string) {
					defer swg.Done()
					vmu.Lock()
					done := o.Status == "unsat" && !opt.Thorough
					vmu.Unlock()
					if done {
						return
					}
					lim := wallSecond
					if strings.HasPrefix(solver, "z3-new-p") {
						lim = wallPortfolio
					} else if opt.Thorough && st == "unsat" {
						lim = 20 * time.Second // cross-check of a discharged obligation
						if opt.Light {
							if solver == "cvc5" {
								return
							}
							lim = 10 * time.Second
						}
					}
					st2, ms2, _ := runCtx(pctx, k, solver, lim)
					vmu.Lock()
					defer vmu.Unlock()
					res.SolverMs += ms2
					if st2 == "unsat" && !opt.Thorough {
						pcancel() // the others are no longer needed
					}
					label := solver
					if strings.HasPrefix(solver, "z3-new-p") {
						label = "z3-new(portfolio)"
					}
					if st2 == "unsat" && o.Status != "unsat" {
						o.Status, o.Solver, o.Millis = "unsat", label, ms2
					} else if st2 == "sat" && o.Status == "unsat" && !strings.Contains(prefixes[k]+query(o), "forall") {
						// quantifier-free disagreement is an engine error
						res.Fatal = append(res.Fatal, fmt.Sprintf("solver disagreement on %s: %s says unsat, %s says sat", o.Name, o.Solver, solver))
					} else if st2 == "sat" && o.Status != "unsat" {
						o.Note = strings.TrimSpace(o.Note + " " + solver + ":sat")
					}
				}(solver)
			}
			swg.Wait()
			pcancel()
			if o.Status != "unsat" && o.Status != "error" && st != "unknown(saturated)" && !opt.ExpectFail[res.Key+"#"+o.Name] {
				// last attempt with an eight times larger budget (a few obligations per function only)
				vmu.Lock()
				nRetry++
				skip := nRetry > maxRetry
				vmu.Unlock()
				if skip {
					return
				}
				st3, ms3, _ := run(k, "z3-new-retry", wallRetry)
				vmu.Lock()
				res.SolverMs += ms3
				if st3 == "unsat" {
					o.Status, o.Solver, o.Millis = "unsat", "z3-new(retry)", ms3
				}
				vmu.Unlock()
			}
		}(k)
	}
	wg.Wait()
	nm := 0
	for k, o := range res.Obls {
		if o.Status == "unsat" || o.Status == "error" {
			continue
		}
		if nm++; nm > 6 {
			break
		}
		e.findModel(o, t, prefixes[k], base, per)
	}
}

// prefixFor: the part of the script that precedes obligation o (earlier obligations assumed).
func prefixFor(res *FuncResult, body string, o *Obligation) string {
	var sb strings.Builder
	for _, line := range strings.Split(body, "\n") {
		if strings.HasPrefix(line, ";;OBL ") {
			var k int
			fmt.Sscanf(line, ";;OBL %d", &k)
			p := res.Obls[k]
			if p == o {
				break
			}
			fmt.Fprintf(&sb, "(assert (=> %s %s))\n", p.Guard, p.Goal)
			continue
		}
		sb.WriteString(line)
		sb.WriteString("\n")
	}
	return sb.String()
}

// findModel tries to obtain a concrete counterexample. Pass 2a drops quantified assumptions (a relaxation: any model
// is only a candidate); pass 2b asks z3 with MBQI for a real model.
func (e *Engine) findModel(o *Obligation, t *tr, body, base string, per time.Duration) {
	relaxed := dropQuantified(body)
	prel := e.buildPrelude("z3-mbqi", body+o.Guard+" "+o.Goal)
	want := t.modelTerms()
	q := fmt.Sprintf("(assert (and %s (not %s)))\n(check-sat)\n(get-value (%s))\n", o.Guard, o.Goal, strings.Join(want, " "))
	f := writeScratch(fmt.Sprintf("%s_%s_relax.smt2", base, sanitize(o.Name)), dropQuantified(prel)+fmt.Sprintf("(set-option :timeout %d)\n", per.Milliseconds())+relaxed+dropQuantified(q))
	r := runSolverLimited("z3-mbqi", f, 5*time.Second)
	if len(r.lines) > 0 && r.lines[0] == "sat" {
		o.Status = "sat"
		o.Model = strings.Join(r.lines[1:], "\n")
		o.Note = strings.TrimSpace(o.Note + " candidate-model(relaxed)")
		return
	}
	f = writeScratch(fmt.Sprintf("%s_%s_mbqi.smt2", base, sanitize(o.Name)), prel+fmt.Sprintf("(set-option :timeout %d)\n", per.Milliseconds())+body+q)
	r = runSolverLimited("z3-mbqi", f, per)
	if len(r.lines) > 0 && r.lines[0] == "sat" {
		o.Status = "sat"
		o.Model = strings.Join(r.lines[1:], "\n")
		o.Note = strings.TrimSpace(o.Note + " model(mbqi)")
	}
}

// dropQuantified removes every top-level assert that contains a quantifier.
func dropQuantified(s string) string {
	var sb strings.Builder
	for _, l := range strings.Split(s, "\n") {
		if strings.HasPrefix(l, "(assert") && (strings.Contains(l, "(forall ") || strings.Contains(l, "(exists ")) {
			continue
		}
		sb.WriteString(l)
		sb.WriteString("\n")
	}
	return sb.String()
}

// modelTerms: the named constants whose values describe a counterexample (parameters, call results, reachability).
func (t *tr) modelTerms() []string {
	var out []string
	for _, p := range t.fn.Params {
		out = append(out, t.val[p]...)
	}
	for b, r := range t.reach {
		_ = b
		if strings.HasPrefix(r, "R_") {
			out = append(out, r)
		}
	}
	sort.Strings(out)
	if len(out) == 0 {
		out = []string{"true"}
	}
	return out
}

// ---------------------------------------------------------------- JSON helpers

func writeJSON(path string, v interface{}) error {
	b, err := json.MarshalIndent(v, "", " ")
	if err != nil {
		return err
	}
	os.MkdirAll(filepath.Dir(path), 0755)
	return os.WriteFile(path, append(b, '\n'), 0644)
}


// frameHeapOf: the base name of the heap / ghost a frame obligation is about ("frame/H_int@return[1]" -> "H_int",
// "frame/stream@loop[0].keep" -> "G_stream"); "" for anything else.
func frameHeapOf(name string) string {
	i := strings.Index(name, "frame/")
	if i < 0 {
		return ""
	}
	rest := name[i+len("frame/"):]
	if j := strings.Index(rest, "@"); j >= 0 {
		rest = rest[:j]
	}
	if rest == "" {
		return ""
	}
	if strings.HasPrefix(rest, "H_") || strings.HasPrefix(rest, "M") || strings.HasPrefix(rest, "D_") {
		return rest
	}
	return "G_" + rest
}

var reSymbol = regexp.MustCompile(`[A-Za-z_][A-Za-z0-9_$]*`)
var reDefHead = regexp.MustCompile(`^\(assert \((?:=> \S+ \()?= ([A-Za-z_][A-Za-z0-9_$]*) `)

// sliceForFrame keeps, of the assertions of a script prefix, those that mention the given heap (any version; in the
// minimal form only the definitions of its versions), the predicates existed / born, or define (as `(= sym ...)`, possibly under a reachability guard) a symbol that a kept
// assertion or the goal mentions - transitively. Everything that is not an assertion (declarations) is kept.
func sliceForFrame(prefix, heap, goal string, minimal bool) string {
	lines := strings.Split(prefix, "\n")
	keep := make([]bool, len(lines))
	defOf := map[string][]int{}
	for i, l := range lines {
		if !strings.HasPrefix(l, "(assert") {
			keep[i] = true
			continue
		}
		if m := reDefHead.FindStringSubmatch(l); m != nil {
			defOf[m[1]] = append(defOf[m[1]], i)
		}
	}
	need := map[string]bool{}
	var work []string
	addSyms := func(t string) {
		for _, sy := range reSymbol.FindAllString(t, -1) {
			if !need[sy] {
				need[sy] = true
				work = append(work, sy)
			}
		}
	}
	hv := heap + "_v"
	for i, l := range lines {
		if keep[i] || !strings.HasPrefix(l, "(assert") {
			continue
		}
		isVersionDef := false
		if m := reDefHead.FindStringSubmatch(l); m != nil && strings.HasPrefix(m[1], hv) {
			isVersionDef = true
		}
		// minimal: how the versions of this heap are derived from one another, and the existence / allocation-order facts;
		// otherwise also everything that says something about the heap's contents
		if isVersionDef || strings.Contains(l, "(existed ") || strings.Contains(l, "(born ") || (!minimal && strings.Contains(l, hv)) {
			keep[i] = true
			addSyms(l)
		}
	}
	addSyms(goal)
	for len(work) > 0 {
		sy := work[len(work)-1]
		work = work[:len(work)-1]
		for _, i := range defOf[sy] {
			if !keep[i] {
				keep[i] = true
				addSyms(lines[i])
			}
		}
	}
	var sb strings.Builder
	for i, l := range lines {
		if keep[i] {
			sb.WriteString(l)
			sb.WriteString("\n")
		}
	}
	return sb.String()
}

var rePatternPart = regexp.MustCompile(`:pattern \([^\n]*?\)\)`)
var reSpecSym = regexp.MustCompile(`\bsf_[A-Za-z0-9_]+\b`)
