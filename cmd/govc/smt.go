package main

import (
	"bytes"
	"regexp"
	"context"
	"fmt"
	"go/types"
	"sync"
	"os"
	"os/exec"
	"path/filepath"
	"sort"
	"strings"
	"time"
)

const preludeSorts = `(declare-sort GStr 0)
(declare-sort BSeq 0)
(define-sort F64 () (_ FloatingPoint 11 53))
(define-sort F32 () (_ FloatingPoint 8 24))
(define-fun f64zero () F64 (_ +zero 11 53))
(define-fun f32zero () F32 (_ +zero 8 24))
(declare-const str_empty GStr)
(declare-const seq_empty BSeq)
(declare-fun slen_s (GStr) Int)
(declare-fun sat (GStr Int) Int)
(declare-fun str_cat (GStr GStr) GStr)
(declare-fun str_sub (GStr Int Int) GStr)
(declare-fun str_of_seq (BSeq) GStr)
(declare-fun seq_of_str (GStr) BSeq)
(declare-fun str_of_rune (Int) GStr)
(declare-fun seq_len (BSeq) Int)
(declare-fun seq_at (BSeq Int) Int)
(declare-fun seq_cat (BSeq BSeq) BSeq)
(declare-fun seq_sub (BSeq Int Int) BSeq)
(declare-fun seq_unit (Int) BSeq)
(declare-fun seqof ((Array Int Int) Int Int) BSeq)
(declare-datatypes ((Loc 0)) (((mkloc (ltyp Int) (lref Int) (lcell Int)))))
(define-fun nullloc () Loc (mkloc 0 0 0))
(declare-datatypes ((Slice 0)) (((mkslice (styp Int) (sref Int) (soff Int) (slen Int) (scap Int)))))
(define-fun nullslice () Slice (mkslice 0 0 0 0 0))
(declare-datatypes ((Iface 0)) (((mkiface (ityp Int) (iint Int) (ibool Bool) (istr GStr) (iloc Loc) (islice Slice) (ifp F64)))))
(define-fun niliface () Iface (mkiface 0 0 false str_empty nullloc nullslice f64zero))
(declare-fun existed (Int) Bool)
(declare-fun cidx (Int Int Int Int) Int)
(declare-fun bshl (Int Int) Int)
(declare-fun bshr (Int Int) Int)
(declare-fun band (Int Int) Int)
(declare-fun bor (Int Int) Int)
(declare-fun bxor (Int Int) Int)
(declare-fun bandnot (Int Int) Int)
`

const preludeAxioms = `(declare-fun born (Int) Int)
(declare-fun seedp_Int (Int) Bool)
(declare-fun seedp_Bool (Bool) Bool)
(declare-fun seedp_GStr (GStr) Bool)
(declare-fun seedp_Loc (Loc) Bool)
(declare-fun seedp_Slice (Slice) Bool)
(declare-fun seedp_Iface (Iface) Bool)
(declare-fun seedp_F64 (F64) Bool)
(declare-fun seedp_F32 (F32) Bool)
(assert (forall ((x Int)) (! (seedp_Int x) :pattern ((seedp_Int x)))))
(assert (forall ((x Bool)) (! (seedp_Bool x) :pattern ((seedp_Bool x)))))
(assert (forall ((x GStr)) (! (seedp_GStr x) :pattern ((seedp_GStr x)))))
(assert (forall ((x Loc)) (! (seedp_Loc x) :pattern ((seedp_Loc x)))))
(assert (forall ((x Slice)) (! (seedp_Slice x) :pattern ((seedp_Slice x)))))
(assert (forall ((x Iface)) (! (seedp_Iface x) :pattern ((seedp_Iface x)))))
(assert (forall ((x F64)) (! (seedp_F64 x) :pattern ((seedp_F64 x)))))
(assert (forall ((x F32)) (! (seedp_F32 x) :pattern ((seedp_F32 x)))))
(assert (forall ((b Int) (s Int) (i Int) (f Int)) (! (= (cidx b s i f) (+ b (* s i) f)) :pattern ((cidx b s i f)))))
(assert (forall ((r Int)) (! (=> (<= r 0) (existed r)) :pattern ((existed r)))))
(assert (forall ((s GStr)) (! (>= (slen_s s) 0) :pattern ((slen_s s)))))
(assert (= (slen_s str_empty) 0))
(assert (forall ((q BSeq)) (! (>= (seq_len q) 0) :pattern ((seq_len q)))))
(assert (= (seq_len seq_empty) 0))
(assert (forall ((q BSeq)) (! (=> (= (seq_len q) 0) (= q seq_empty)) :pattern ((seq_len q)))))
(assert (= (seq_of_str str_empty) seq_empty))
(assert (forall ((a (Array Int Int)) (o Int) (n Int)) (! (=> (>= n 0) (= (seq_len (seqof a o n)) n)) :pattern ((seqof a o n)))))
(assert (forall ((a (Array Int Int)) (o Int) (n Int) (i Int)) (! (=> (and (<= 0 i) (< i n)) (= (seq_at (seqof a o n) i) (select a (+ o i)))) :pattern ((seq_at (seqof a o n) i)))))
(assert (forall ((a (Array Int Int)) (o Int)) (! (= (seqof a o 0) seq_empty) :pattern ((seqof a o 0)))))
(assert (forall ((a (Array Int Int)) (o Int)) (! (= (seqof a o 1) (seq_unit (select a o))) :pattern ((seqof a o 1)))))
(assert (forall ((a (Array Int Int)) (o Int)) (! (= (seqof a o 2) (seq_cat (seq_unit (select a o)) (seq_unit (select a (+ o 1))))) :pattern ((seqof a o 2)))))
(assert (forall ((a (Array Int Int)) (o Int)) (! (= (seqof a o 3) (seq_cat (seq_unit (select a o)) (seq_cat (seq_unit (select a (+ o 1))) (seq_unit (select a (+ o 2)))))) :pattern ((seqof a o 3)))))
(assert (forall ((a (Array Int Int)) (o Int)) (! (= (seqof a o 4) (seq_cat (seqof a o 2) (seqof a (+ o 2) 2))) :pattern ((seqof a o 4)))))
(assert (forall ((a (Array Int Int)) (o Int)) (! (= (seqof a o 8) (seq_cat (seqof a o 4) (seqof a (+ o 4) 4))) :pattern ((seqof a o 8)))))
(assert (forall ((s GStr)) (! (= (str_of_seq (seq_of_str s)) s) :pattern ((seq_of_str s)))))
(assert (forall ((q BSeq)) (! (= (seq_of_str (str_of_seq q)) q) :pattern ((str_of_seq q)))))
(assert (forall ((s GStr)) (! (= (seq_len (seq_of_str s)) (slen_s s)) :pattern ((seq_of_str s)))))
(assert (forall ((s GStr) (i Int)) (! (= (seq_at (seq_of_str s) i) (sat s i)) :pattern ((seq_at (seq_of_str s) i)))))
(assert (forall ((s GStr) (i Int)) (! (=> (and (<= 0 i) (< i (slen_s s))) (and (<= 0 (sat s i)) (<= (sat s i) 255))) :pattern ((sat s i)))))
(assert (forall ((b Int)) (! (and (= (seq_len (seq_unit b)) 1) (= (seq_at (seq_unit b) 0) b)) :pattern ((seq_unit b)))))
(assert (forall ((a BSeq) (b BSeq)) (! (= (seq_len (seq_cat a b)) (+ (seq_len a) (seq_len b))) :pattern ((seq_cat a b)))))
(assert (forall ((a BSeq) (b BSeq) (i Int)) (! (= (seq_at (seq_cat a b) i) (ite (< i (seq_len a)) (seq_at a i) (seq_at b (- i (seq_len a))))) :pattern ((seq_at (seq_cat a b) i)))))
(assert (forall ((a BSeq)) (! (= (seq_cat a seq_empty) a) :pattern ((seq_cat a seq_empty)))))
(assert (forall ((a BSeq)) (! (= (seq_cat seq_empty a) a) :pattern ((seq_cat seq_empty a)))))
(assert (forall ((a BSeq) (b BSeq) (c BSeq)) (! (= (seq_cat (seq_cat a b) c) (seq_cat a (seq_cat b c))) :pattern ((seq_cat (seq_cat a b) c)))))
(assert (forall ((a GStr) (b GStr)) (! (= (seq_of_str (str_cat a b)) (seq_cat (seq_of_str a) (seq_of_str b))) :pattern ((str_cat a b)))))
(assert (forall ((a GStr) (b GStr)) (! (= (slen_s (str_cat a b)) (+ (slen_s a) (slen_s b))) :pattern ((str_cat a b)))))
(assert (forall ((s GStr) (lo Int) (hi Int)) (! (=> (and (<= 0 lo) (<= lo hi) (<= hi (slen_s s))) (= (slen_s (str_sub s lo hi)) (- hi lo))) :pattern ((str_sub s lo hi)))))
(assert (forall ((s GStr) (lo Int) (hi Int) (i Int)) (! (=> (and (<= 0 lo) (<= lo hi) (<= hi (slen_s s)) (<= 0 i) (< i (- hi lo))) (= (sat (str_sub s lo hi) i) (sat s (+ lo i)))) :pattern ((sat (str_sub s lo hi) i)))))
(assert (forall ((s GStr) (lo Int) (hi Int)) (! (= (seq_of_str (str_sub s lo hi)) (seq_sub (seq_of_str s) lo hi)) :pattern ((str_sub s lo hi)))))
(assert (forall ((q BSeq) (lo Int) (hi Int)) (! (=> (and (<= 0 lo) (<= lo hi) (<= hi (seq_len q))) (= (seq_len (seq_sub q lo hi)) (- hi lo))) :pattern ((seq_sub q lo hi)))))
(assert (forall ((q BSeq) (lo Int) (hi Int) (i Int)) (! (=> (and (<= 0 lo) (<= lo hi) (<= hi (seq_len q)) (<= 0 i) (< i (- hi lo))) (= (seq_at (seq_sub q lo hi) i) (seq_at q (+ lo i)))) :pattern ((seq_at (seq_sub q lo hi) i)))))
(assert (forall ((q BSeq) (n Int)) (! (=> (= n (seq_len q)) (= (seq_sub q 0 n) q)) :pattern ((seq_sub q 0 n)))))
(assert (forall ((a (Array Int Int)) (o Int) (n Int) (lo Int) (hi Int)) (! (=> (and (<= 0 lo) (<= lo hi) (<= hi n)) (= (seq_sub (seqof a o n) lo hi) (seqof a (+ o lo) (- hi lo)))) :pattern ((seq_sub (seqof a o n) lo hi)))))
(assert (forall ((a (Array Int Int)) (o Int) (n Int) (o2 Int) (n2 Int)) (! (=> (and (<= 0 n) (<= 0 n2) (= o2 (+ o n))) (= (seq_cat (seqof a o n) (seqof a o2 n2)) (seqof a o (+ n n2)))) :pattern ((seq_cat (seqof a o n) (seqof a o2 n2))))))
(assert (forall ((q BSeq) (a Int) (b Int) (c Int)) (! (=> (and (<= 0 a) (<= a b) (<= b c) (<= c (seq_len q))) (= (seq_cat (seq_sub q a b) (seq_sub q b c)) (seq_sub q a c))) :pattern ((seq_cat (seq_sub q a b) (seq_sub q b c))))))
(assert (forall ((q BSeq) (a Int)) (! (= (seq_sub q a a) seq_empty) :pattern ((seq_sub q a a)))))
(assert (forall ((a BSeq) (b BSeq) (lo Int) (hi Int)) (! (=> (and (<= 0 lo) (<= lo hi) (<= hi (seq_len a))) (= (seq_sub (seq_cat a b) lo hi) (seq_sub a lo hi))) :pattern ((seq_sub (seq_cat a b) lo hi)))))
(assert (forall ((a BSeq) (b BSeq) (lo Int) (hi Int)) (! (=> (and (<= (seq_len a) lo) (<= lo hi) (<= hi (+ (seq_len a) (seq_len b)))) (= (seq_sub (seq_cat a b) lo hi) (seq_sub b (- lo (seq_len a)) (- hi (seq_len a))))) :pattern ((seq_sub (seq_cat a b) lo hi)))))
(assert (forall ((q BSeq) (a Int) (b Int) (c Int) (d Int)) (! (=> (and (<= 0 a) (<= a b) (<= b (seq_len q)) (<= 0 c) (<= c d) (<= d (- b a))) (= (seq_sub (seq_sub q a b) c d) (seq_sub q (+ a c) (+ a d)))) :pattern ((seq_sub (seq_sub q a b) c d)))))
(assert (forall ((q BSeq) (n Int)) (! (=> (<= n 0) (= (seq_sub q 0 n) seq_empty)) :pattern ((seq_sub q 0 n)))))
(assert (forall ((a Int) (b Int)) (! (= (bor a b) (bor b a)) :pattern ((bor a b)))))
(assert (forall ((b Int)) (! (=> (>= b 0) (= (bor 0 b) b)) :pattern ((bor 0 b)))))
(assert (forall ((a Int)) (! (=> (>= a 0) (= (bor a 0) a)) :pattern ((bor a 0)))))
(assert (forall ((a Int) (b Int)) (! (=> (and (= (mod a 2) 0) (<= 0 b) (< b 2)) (= (bor a b) (+ a b))) :pattern ((bor a b)))))
(assert (forall ((a Int) (b Int)) (! (=> (and (= (mod a 4) 0) (<= 0 b) (< b 4)) (= (bor a b) (+ a b))) :pattern ((bor a b)))))
(assert (forall ((a Int) (b Int)) (! (=> (and (= (mod a 8) 0) (<= 0 b) (< b 8)) (= (bor a b) (+ a b))) :pattern ((bor a b)))))
(assert (forall ((a Int) (b Int)) (! (=> (and (= (mod a 16) 0) (<= 0 b) (< b 16)) (= (bor a b) (+ a b))) :pattern ((bor a b)))))
(assert (forall ((a Int) (b Int)) (! (=> (and (= (mod a 256) 0) (<= 0 b) (< b 256)) (= (bor a b) (+ a b))) :pattern ((bor a b)))))
(assert (forall ((a Int) (b Int)) (! (=> (and (= (mod a 4096) 0) (<= 0 b) (< b 4096)) (= (bor a b) (+ a b))) :pattern ((bor a b)))))
(assert (forall ((a Int) (b Int)) (! (=> (and (= (mod a 65536) 0) (<= 0 b) (< b 65536)) (= (bor a b) (+ a b))) :pattern ((bor a b)))))
(assert (forall ((a Int) (b Int)) (! (=> (and (= (mod a 16777216) 0) (<= 0 b) (< b 16777216)) (= (bor a b) (+ a b))) :pattern ((bor a b)))))
(assert (forall ((a Int) (b Int)) (! (=> (and (= (mod a 134217728) 0) (<= 0 b) (< b 134217728)) (= (bor a b) (+ a b))) :pattern ((bor a b)))))
(assert (forall ((a Int) (b Int)) (! (=> (and (= (mod a 2147483648) 0) (<= 0 b) (< b 2147483648)) (= (bor a b) (+ a b))) :pattern ((bor a b)))))
(assert (forall ((a Int) (b Int)) (! (=> (and (= (mod a 4294967296) 0) (<= 0 b) (< b 4294967296)) (= (bor a b) (+ a b))) :pattern ((bor a b)))))
(assert (forall ((a Int) (b Int)) (! (=> (and (= (mod a 1099511627776) 0) (<= 0 b) (< b 1099511627776)) (= (bor a b) (+ a b))) :pattern ((bor a b)))))
(assert (forall ((a Int) (b Int)) (! (=> (and (= (mod a 281474976710656) 0) (<= 0 b) (< b 281474976710656)) (= (bor a b) (+ a b))) :pattern ((bor a b)))))
(assert (forall ((a Int) (b Int)) (! (=> (and (= (mod a 72057594037927936) 0) (<= 0 b) (< b 72057594037927936)) (= (bor a b) (+ a b))) :pattern ((bor a b)))))
(assert (forall ((a Int) (b Int)) (! (=> (and (>= a 0) (>= b 0)) (and (<= 0 (band a b)) (<= (band a b) a) (<= (band a b) b))) :pattern ((band a b)))))
(assert (forall ((a Int) (b Int)) (! (=> (and (>= a 0) (>= b 0)) (and (<= a (bor a b)) (<= b (bor a b)) (<= (bor a b) (+ a b)))) :pattern ((bor a b)))))
`

func seqNDecls() string {
	var sb strings.Builder
	var sizes []int
	for n := range seqNSizes {
		sizes = append(sizes, n)
	}
	sort.Ints(sizes)
	for _, n := range sizes {
		ints := strings.TrimSpace(strings.Repeat("Int ", n))
		fmt.Fprintf(&sb, "(declare-fun seq%d (%s) BSeq)\n", n, ints)
		// seqof(a, o, n) = seqN(a[o] .. a[o+n-1])
		var sels, vars, decl []string
		for i := 0; i < n; i++ {
			sels = append(sels, fmt.Sprintf("(select a (+ o %d))", i))
			vars = append(vars, fmt.Sprintf("x%d", i))
			decl = append(decl, fmt.Sprintf("(x%d Int)", i))
		}
		fmt.Fprintf(&sb, "(assert (forall ((a (Array Int Int)) (o Int)) (! (= (seqof a o %d) (seq%d %s)) :pattern ((seqof a o %d)))))\n", n, n, strings.Join(sels, " "), n)
		fmt.Fprintf(&sb, "(assert (forall (%s) (! (= (seq_len (seq%d %s)) %d) :pattern ((seq%d %s)))))\n", strings.Join(decl, " "), n, strings.Join(vars, " "), n, n, strings.Join(vars, " "))
	}
	return sb.String()
}

var reLitName = regexp.MustCompile(`lit_[0-9a-f]{12}`)

// buildPrelude: sorts, functions and axioms every script starts with. Only the string literals that occur in `body` are
// declared (the literal table is shared by all functions translated in this process; what one script contains must not
// depend on what else is being verified).
func (e *Engine) buildPrelude(solver string, body string) string {
	var sb strings.Builder
	switch solver {
	case "z3", "z3-new", "z3-new-retry", "z3-new-p1", "z3-new-p2", "z3-new-p3":
		sb.WriteString("(set-option :smt.mbqi false)\n(set-option :smt.auto_config false)\n")
	case "z3-mbqi":
	case "cvc5":
		sb.WriteString("(set-logic ALL)\n")
	}
	sb.WriteString(preludeSorts)
	// uncomparable dynamic types
	e.mu.Lock()
	var unc []int
	for t := range e.uncomparable {
		unc = append(unc, t)
	}
	sort.Ints(unc)
	sb.WriteString("(define-fun uncomparable ((t Int)) Bool ")
	if len(unc) == 0 {
		sb.WriteString("false")
	} else {
		sb.WriteString("(or")
		for _, t := range unc {
			fmt.Fprintf(&sb, " (= t %d)", t)
		}
		sb.WriteString(")")
	}
	sb.WriteString(")\n")
	f64tag := e.tags["float64"]
	e.mu.Unlock()
	fmt.Fprintf(&sb, "(define-fun iface_eq ((a Iface) (b Iface)) Bool (ite (and (= (ityp a) %d) (= (ityp b) %d)) (fp.eq (ifp a) (ifp b)) (= a b)))\n", f64tag, f64tag)
	sb.WriteString(preludeAxioms)
	sb.WriteString(seqNDecls())
	// ptrelem(k): for the tag k of a pointer to a (never embedded) named struct type, the tag of that struct type; else 0.
	// Used by the type facts of interface-typed program values (never as a statement about all values of sort Iface).
	e.mu.Lock()
	var ptags []int
	for tag := range e.tagTy {
		ptags = append(ptags, tag)
	}
	sort.Ints(ptags)
	chain := "0"
	for _, tag := range ptags {
		pt, ok := e.tagTy[tag].Underlying().(*types.Pointer)
		if !ok {
			continue
		}
		nm, ok := pt.Elem().(*types.Named)
		if !ok {
			continue
		}
		if _, isStruct := nm.Underlying().(*types.Struct); !isStruct || e.embedded[types.TypeString(nm, nil)] {
			continue
		}
		et, ok := e.tags[types.TypeString(nm, nil)]
		if !ok {
			continue
		}
		chain = fmt.Sprintf("(ite (= k %d) %d %s)", tag, et, chain)
	}
	e.mu.Unlock()
	fmt.Fprintf(&sb, "(define-fun ptrelem ((k Int)) Int %s)\n", chain)
	sb.WriteString("(define-fun iface_wf ((v Iface)) Bool (and (>= (ityp v) 0) (=> (= (ityp v) 0) (= v niliface)) (=> (> (ptrelem (ityp v)) 0) (or (= (iloc v) nullloc) (and (= (ltyp (iloc v)) (ptrelem (ityp v))) (= (lcell (iloc v)) 0) (> (lref (iloc v)) 0))))))\n")
	// okslice_<k>(tag): an object of allocation type `tag` may back a slice of element type k (it is not one of the
	// known struct types that hold no cell of that type)
	e.mu.Lock()
	var elOrder []int
	for k := range e.elemTypes {
		if strings.Contains(body, "okslice_"+e.elemNames[k]+" ") {
			elOrder = append(elOrder, k) // only the predicates this script uses, in an order that depends on nothing else
		}
	}
	sort.Slice(elOrder, func(i, j int) bool { return e.elemNames[elOrder[i]] < e.elemNames[elOrder[j]] })
	for _, ki := range elOrder {
		el := e.elemTypes[ki]
		k := e.elemNames[ki]
		var bad []string
		var all []int
		for tg := range e.tagTy {
			all = append(all, tg)
		}
		sort.Ints(all)
		for _, tg := range all {
			// an object of allocation type T holds the cells of T; the backing object of make/append for []X holds X cells
			content := e.tagTy[tg]
			isBacking := false
			if st, ok := content.Underlying().(*types.Slice); ok {
				content = st.Elem()
				isBacking = true
			}
			if nm, ok := content.(*types.Named); ok && nm.Obj() != nil && nm.Obj().Pkg() == nil && nm.Obj().Name() != "error" {
				continue // pseudo types (function symbols, sentinels)
			}
			holds := typeHoldsArrayOf(content, el, 0) || (isBacking && (types.Identical(content, el) || typeKey(content) == typeKey(el)))
			if !holds {
				bad = append(bad, fmt.Sprintf("(= t %d)", tg))
			}
		}
		// closed world for unexported named element types: only the package that declares the type can create arrays or
		// slices of it, and every allocation site of that package is in the loaded program - so the possible backing objects
		// are exactly the known allocation types that hold such elements
		if nm, ok := el.(*types.Named); ok && nm.Obj() != nil && !nm.Obj().Exported() && nm.Obj().Pkg() != nil && strings.HasPrefix(nm.Obj().Pkg().Path(), hcPath) {
			var good []string
			for _, tg := range all {
				content := e.tagTy[tg]
				isBacking := false
				if st, ok := content.Underlying().(*types.Slice); ok {
					content = st.Elem()
					isBacking = true
				}
				if typeHoldsArrayOf(content, el, 0) || (isBacking && (types.Identical(content, el) || typeKey(content) == typeKey(el))) {
					good = append(good, fmt.Sprintf("(= t %d)", tg))
				}
			}
			if len(good) > 0 {
				fmt.Fprintf(&sb, "(define-fun okslice_%s ((t Int)) Bool (or %s))\n", k, strings.Join(good, " "))
				continue
			}
		}
		if len(bad) == 0 {
			fmt.Fprintf(&sb, "(define-fun okslice_%s ((t Int)) Bool true)\n", k)
		} else {
			fmt.Fprintf(&sb, "(define-fun okslice_%s ((t Int)) Bool (not (or %s)))\n", k, strings.Join(bad, " "))
		}
	}
	e.mu.Unlock()
	// spec functions
	for _, n := range e.specs.SFOrder {
		sf := e.specs.SFuncs[n]
		var ps []string
		for _, p := range sf.Params {
			ps = append(ps, specSortSMT(p))
		}
		fmt.Fprintf(&sb, "(declare-fun sf_%s (%s) %s)\n", n, strings.Join(ps, " "), specSortSMT(sf.Result))
	}
	// string literals
	e.mu.Lock()
	used := map[string]bool{}
	for _, m := range reLitName.FindAllString(body, -1) {
		used[m] = true
	}
	var lits []string
	litName := map[string]string{}
	for _, s := range e.litOrder {
		if used[e.lits[s]] {
			lits = append(lits, s)
			litName[s] = e.lits[s]
		}
	}
	e.mu.Unlock()
	sort.Slice(lits, func(i, j int) bool { return litName[lits[i]] < litName[lits[j]] })
	var names []string
	for _, s := range lits {
		n := litName[s]
		names = append(names, n)
		fmt.Fprintf(&sb, "(declare-const %s GStr)\n(assert (= (slen_s %s) %d))\n", n, n, len(s))
		if len(s) <= 48 {
			for i := 0; i < len(s); i++ {
				fmt.Fprintf(&sb, "(assert (= (sat %s %d) %d))\n", n, i, s[i])
			}
		}
	}
	if len(names) > 0 {
		fmt.Fprintf(&sb, "(assert (distinct str_empty %s))\n", strings.Join(names, " "))
		var seqs []string
		for _, n := range names {
			seqs = append(seqs, "(seq_of_str "+n+")")
		}
		fmt.Fprintf(&sb, "(assert (distinct seq_empty %s))\n", strings.Join(seqs, " "))
	}
	return sb.String()
}

func specSortSMT(s string) string {
	switch s {
	case "ref", "int":
		return "Int"
	}
	return smtSort(ghostValSort(s))
}

type solverResult struct {
	lines  []string
	errors []string
	millis int64
}

func runSolver(solver, file string, timeout time.Duration) solverResult {
	return runSolverCtx(context.Background(), solver, file, timeout)
}

// runSolverCtx: as runSolver; cancelling parent kills the solver (used when another member of a portfolio has answered).
func runSolverCtx(parent context.Context, solver, file string, timeout time.Duration) solverResult {
	var cmd *exec.Cmd
	ctx, cancel := context.WithTimeout(parent, timeout+2*time.Second)
	defer cancel()
	switch solver {
	case "z3":
		cmd = exec.CommandContext(ctx, "z3", fmt.Sprintf("-T:%d", int(timeout.Seconds())+1), file)
	case "z3-new", "z3-mbqi", "z3-new-retry", "z3-new-p1", "z3-new-p2", "z3-new-p3":
		cmd = exec.CommandContext(ctx, "z3-new", fmt.Sprintf("-T:%d", int(timeout.Seconds())+1), file)
	case "cvc5":
		cmd = exec.CommandContext(ctx, "cvc5", "--incremental", fmt.Sprintf("--tlimit=%d", timeout.Milliseconds()), file)
	}
	t0 := time.Now()
	var out bytes.Buffer
	cmd.Stdout = &out
	cmd.Stderr = &out
	cmd.Run()
	res := solverResult{millis: time.Since(t0).Milliseconds()}
	for _, l := range strings.Split(out.String(), "\n") {
		l = strings.TrimSpace(l)
		if l == "" || strings.HasPrefix(l, "WARNING") || strings.HasPrefix(l, "warning") {
			continue
		}
		if strings.HasPrefix(l, "(error") {
			res.errors = append(res.errors, l)
			continue
		}
		res.lines = append(res.lines, l)
	}
	return res
}

var scratchDir string
var scratchMu sync.Mutex

func scratch() string {
	scratchMu.Lock()
	defer scratchMu.Unlock()
	if scratchDir == "" {
		d, err := os.MkdirTemp("", "govc-")
		if err != nil {
			panic(err)
		}
		scratchDir = d
	}
	return scratchDir
}

func cleanupScratch() {
	if scratchDir != "" {
		os.RemoveAll(scratchDir)
	}
}

func writeScratch(name, content string) string {
	p := filepath.Join(scratch(), name)
	os.WriteFile(p, []byte(content), 0644)
	return p
}
