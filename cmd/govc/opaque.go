package main

import (
	"fmt"
	"go/ast"
	"go/types"
	"regexp"
	"sort"
	"strings"
)

// Opaque predicates ("opaque p, q" clause of a function contract).
//
// While a function is verified, a predicate named in its opaque clause is not unfolded. It is translated to an
// uninterpreted function of (a) its arguments and (b) its footprint: the parts of the state its definition reads. The
// footprint is computed from the definition on every run, not declared: the body is evaluated once with placeholder
// arguments and every heap symbol occurring in the resulting term is classified as
//   - a row:  (select (select H TAG) (lref <pointer argument>))  - the fields of the argument object itself, or
//   - a table: (select H TAG) elsewhere - all objects of allocation type TAG in that component heap, or
//   - whole:  any other occurrence - the whole component heap (or ghost) is part of the footprint.
// Sound by construction: the real predicate is a function of exactly these inputs, so anything proved about the
// uninterpreted function (congruence only) holds for the real one. It is an abstraction: facts that need the
// definition cannot be proved in that unit (they fail, they never pass wrongly).

type predFootprint struct {
	argSorts []string // SMT sorts of the arguments as passed ("Int" for a pointer with a type invariant: its object)
	argRef   []bool   // argument i is passed as its object reference
	rows     []fpRow
	tables   []fpRow  // (heap, tag): all objects of one allocation type
	whole    []string // base names of heaps read as a whole
	fn       string
}

type fpRow struct {
	heap string // base name, e.g. H_str
	tag  string
	arg  int
}

var reHeapSym = regexp.MustCompile(`^(H_[a-z0-9]+|G_[A-Za-z0-9_]+?|MD_[a-z0-9]+|MV_[a-z0-9]+_[a-z0-9]+|ML|D_[0-9]+)_v[0-9]+$`)

type snode struct {
	atom string
	kids []*snode
}

func parseSexpr(s string) *snode {
	pos := 0
	var rec func() *snode
	rec = func() *snode {
		for pos < len(s) && (s[pos] == ' ' || s[pos] == '\n' || s[pos] == '\t') {
			pos++
		}
		if pos >= len(s) {
			return &snode{}
		}
		if s[pos] == '(' {
			pos++
			n := &snode{kids: []*snode{}}
			for {
				for pos < len(s) && (s[pos] == ' ' || s[pos] == '\n' || s[pos] == '\t') {
					pos++
				}
				if pos >= len(s) {
					return n
				}
				if s[pos] == ')' {
					pos++
					return n
				}
				n.kids = append(n.kids, rec())
			}
		}
		st := pos
		if s[pos] == '"' {
			pos++
			for pos < len(s) && s[pos] != '"' {
				pos++
			}
			pos++
		} else if s[pos] == '|' {
			pos++
			for pos < len(s) && s[pos] != '|' {
				pos++
			}
			pos++
		} else {
			for pos < len(s) && s[pos] != ' ' && s[pos] != '(' && s[pos] != ')' && s[pos] != '\n' {
				pos++
			}
		}
		return &snode{atom: s[st:pos]}
	}
	return rec()
}

func (n *snode) isList(head string, nargs int) bool {
	return n.kids != nil && len(n.kids) == nargs+1 && n.kids[0].atom == head
}

func (c *evalCtx) opaquePred(name string, p *Pred, args []ast.Expr) *sv {
	t := c.t
	var vals []*sv
	for _, a := range args {
		vals = append(vals, c.eval(a))
	}
	fp := t.footprint[name]
	if fp == nil {
		fp = c.computeFootprint(name, p, vals)
		t.footprint[name] = fp
	}
	var actual []string
	for i, v := range vals {
		term := c.rv1(v)
		if fp.argRef[i] {
			_, r, _ := locParts(term)
			term = r
		}
		actual = append(actual, term)
	}
	call := []string{fp.fn}
	call = append(call, actual...)
	for _, r := range fp.rows {
		call = append(call, fmt.Sprintf("(select (select %s %s) %s)", t.H(c.cur, r.heap), r.tag, actual[r.arg]))
	}
	for _, r := range fp.tables {
		call = append(call, fmt.Sprintf("(select %s %s)", t.H(c.cur, r.heap), r.tag))
	}
	for _, h := range fp.whole {
		call = append(call, t.H(c.cur, h))
	}
	return boolSV("(" + strings.Join(call, " ") + ")")
}

func (c *evalCtx) computeFootprint(name string, p *Pred, vals []*sv) *predFootprint {
	t := c.t
	fp := &predFootprint{fn: "opq_" + sanitize(name)}
	ne := &senv{t: t, vars: map[string]*sv{}, lets: map[string]ast.Expr{}, depth: c.env.depth + 1, upto: -1}
	ne.pkg = c.env.pkg
	if p.Pkg != "" {
		if pp := t.eng.pkgs[p.Pkg]; pp != nil {
			ne.pkg = pp.Pkg
		}
	}
	var ph []string
	for i, v := range vals {
		if v.ty == nil && v.sort == "" {
			c.fail("opaque %s: untyped argument", name)
		}
		ts := c.rv(v)
		if len(ts) != 1 {
			c.fail("opaque %s: argument %d is not a single value", name, i)
		}
		phn := fmt.Sprintf("opqph%d", i)
		ph = append(ph, phn)
		ne.vars[p.Params[i]] = &sv{ty: v.ty, sort: v.sort, terms: []string{phn}}
		isRef := false
		if v.ty != nil {
			if _, ok := t.ptrTypeInvariant(v.ty); ok {
				isRef = true
			}
		}
		fp.argRef = append(fp.argRef, isRef)
		if isRef {
			fp.argSorts = append(fp.argSorts, "Int")
		} else {
			fp.argSorts = append(fp.argSorts, smtSort(v.sort))
		}
	}
	// evaluate the definition once, in the current state, with nothing emitted and nothing abbreviated
	saved := t.out.String()
	savedFacts := t.specFacts
	t.specFacts = map[string]bool{}
	t.dryRun++
	cur := map[string]string{}
	for k, v := range c.cur {
		cur[k] = v
	}
	nc := &evalCtx{t: t, env: ne, cur: cur, old: nil, mode: 0}
	var body string
	func() {
		defer func() {
			t.dryRun--
			t.specFacts = savedFacts
			t.out.Reset()
			t.out.WriteString(saved)
		}()
		body = nc.rv1(nc.eval(p.Body))
	}()
	// heap symbol -> base name (current versions only; a symbol of another version means a two-state predicate)
	base := map[string]string{}
	for b, sym := range cur {
		base[sym] = b
	}
	rows := map[fpRow]bool{}
	tables := map[fpRow]bool{}
	whole := map[string]bool{}
	var walk func(n *snode)
	walk = func(n *snode) {
		if n.kids == nil {
			if b, ok := base[n.atom]; ok {
				whole[b] = true
			} else if reHeapSym.MatchString(n.atom) {
				c.fail("opaque %s: the definition reads state %s outside the current state (two-state predicates cannot be opaque)", name, n.atom)
			}
			return
		}
		// (select (select H TAG) (lref opqph_i))
		if n.isList("select", 2) && n.kids[1].isList("select", 2) && n.kids[1].kids[1].kids == nil && n.kids[2].isList("lref", 1) {
			if b, ok := base[n.kids[1].kids[1].atom]; ok && strings.HasPrefix(b, "H_") {
				tag := n.kids[1].kids[2]
				arg := n.kids[2].kids[1]
				if tag.kids == nil && isDigits(tag.atom) && arg.kids == nil {
					for i, pn := range ph {
						if pn == arg.atom && fp.argRef[i] {
							rows[fpRow{heap: b, tag: tag.atom, arg: i}] = true
							return
						}
					}
				}
			}
		}
		// (select H TAG)
		if n.isList("select", 2) && n.kids[1].kids == nil && n.kids[2].kids == nil && isDigits(n.kids[2].atom) {
			if b, ok := base[n.kids[1].atom]; ok && strings.HasPrefix(b, "H_") {
				tables[fpRow{heap: b, tag: n.kids[2].atom, arg: -1}] = true
				return
			}
		}
		for _, k := range n.kids {
			walk(k)
		}
	}
	walk(parseSexpr(body))
	for r := range tables {
		if !whole[r.heap] {
			fp.tables = append(fp.tables, r)
		}
	}
	for r := range rows {
		if !whole[r.heap] && !tables[fpRow{heap: r.heap, tag: r.tag, arg: -1}] {
			fp.rows = append(fp.rows, r)
		}
	}
	less := func(a, b fpRow) bool {
		if a.heap != b.heap {
			return a.heap < b.heap
		}
		if a.tag != b.tag {
			return a.tag < b.tag
		}
		return a.arg < b.arg
	}
	sort.Slice(fp.rows, func(i, j int) bool { return less(fp.rows[i], fp.rows[j]) })
	sort.Slice(fp.tables, func(i, j int) bool { return less(fp.tables[i], fp.tables[j]) })
	for h := range whole {
		fp.whole = append(fp.whole, h)
	}
	sort.Strings(fp.whole)
	sorts := append([]string{}, fp.argSorts...)
	var desc []string
	for _, r := range fp.rows {
		hs := t.heapSortOf(r.heap) // (Array Int (Array Int (Array Int T)))
		sorts = append(sorts, "(Array Int "+smtSort(r.heap[2:])+")")
		_ = hs
		desc = append(desc, fmt.Sprintf("%s[%s][arg%d]", r.heap, r.tag, r.arg))
	}
	for _, r := range fp.tables {
		sorts = append(sorts, "(Array Int (Array Int "+smtSort(r.heap[2:])+"))")
		desc = append(desc, fmt.Sprintf("%s[%s]", r.heap, r.tag))
	}
	for _, h := range fp.whole {
		sorts = append(sorts, t.heapSortOf(h))
		desc = append(desc, h)
	}
	if _, done := t.heapSorts["@decl:"+fp.fn]; !done {
		t.heapSorts["@decl:"+fp.fn] = "x"
		fmt.Fprintf(&t.decls, "(declare-fun %s (%s) Bool)\n", fp.fn, strings.Join(sorts, " "))
	}
	t.abstractf("OPAQUE: predicate %s kept uninterpreted over its computed footprint {%s}", name, strings.Join(desc, ", "))
	return fp
}

func isDigits(s string) bool {
	if s == "" {
		return false
	}
	for _, r := range s {
		if r < '0' || r > '9' {
			return false
		}
	}
	return true
}

var _ = types.Typ
