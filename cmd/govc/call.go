package main

import (
	"fmt"
	"go/ast"
	"go/token"
	"go/types"
	"sort"
	"strings"

	"golang.org/x/tools/go/ssa"
)

func shortName(s string) string {
	// "(*github.com/brutella/hc/hap/pair.SetupServerSession).ProofFromClientProof" -> "SetupServerSession.ProofFromClientProof"
	s = strings.TrimPrefix(s, "invoke:")
	if i := strings.LastIndex(s, "/"); i >= 0 {
		s = s[i+1:]
	}
	s = strings.NewReplacer("(", "", ")", "", "*", "").Replace(s)
	if i := strings.Index(s, "."); i >= 0 && strings.Count(s, ".") >= 2 {
		s = s[i+1:]
	}
	return s
}

// ---------------------------------------------------------------- modifies

type modTarget struct {
	cond  string // optional guard: the target may change only when cond holds
	heap  string
	whole bool   // whole heap
	obj   [2]string // (atype, ref): whole object
	loc   string // single cell
	keys  []string // ghost entry keys
	kind  int    // 0 whole heap, 1 object, 2 cell, 3 ghost entry, 4 map object (by ref)
}

// evalModItem turns one `modifies` item into targets, evaluated in the pre-state.
func (t *tr) evalModItem(item ast.Expr, env *senv, pre map[string]string) (out []modTarget, err error) {
	defer func() {
		if r := recover(); r != nil {
			err = fmt.Errorf("%v", r)
		}
	}()
	c := &evalCtx{t: t, env: env, cur: pre, old: pre}
	switch x := item.(type) {
	case *ast.Ident:
		if x.Name == "heap" {
			for _, s := range realHeapSorts {
				out = append(out, modTarget{heap: "H_" + s})
			}
			for h := range t.heapSorts {
				if strings.HasPrefix(h, "M") {
					out = append(out, modTarget{heap: h})
				}
			}
			return
		}
		if _, ok := t.eng.specs.Ghosts[x.Name]; ok {
			return []modTarget{{heap: "G_" + x.Name}}, nil
		}
	case *ast.CallExpr:
		if id, ok := x.Fun.(*ast.Ident); ok {
			if g, ok := t.eng.specs.Ghosts[id.Name]; ok {
				// fewer keys than the ghost has: every entry under that key prefix (e.g. wpre(t): wpre(t, n) for all n)
				if len(x.Args) > len(g.Keys) || len(x.Args) == 0 {
					return nil, fmt.Errorf("ghost %s expects %d keys", id.Name, len(g.Keys))
				}
				var ks []string
				for i, a := range x.Args {
					ks = append(ks, c.ghostKey(g.Keys[i], c.eval(a)))
				}
				return []modTarget{{heap: "G_" + id.Name, keys: ks, kind: 3}}, nil
			}
			if id.Name == "when" && len(x.Args) == 2 {
				cond := c.rv1(c.eval(x.Args[0]))
				inner, err := t.evalModItem(x.Args[1], env, pre)
				if err != nil {
					return nil, err
				}
				for i := range inner {
					if inner[i].cond != "" {
						inner[i].cond = "(and " + cond + " " + inner[i].cond + ")"
					} else {
						inner[i].cond = cond
					}
				}
				return inner, nil
			}
			if id.Name == "alltype" && len(x.Args) == 1 {
				// alltype("pkg/path.T"): every object of that allocation type, in every component heap its cells use
				ty := c.typeOfArg(x.Args[0])
				tag := fmt.Sprint(t.eng.tag(ty))
				for _, ls := range uniq(leaves(ty)) {
					out = append(out, modTarget{heap: "H_" + ls, obj: [2]string{tag, ""}, kind: 5})
				}
				return out, nil
			}
			if id.Name == "heapof" && len(x.Args) == 1 {
				// heapof("sort"): a whole component heap
				if bl, ok := x.Args[0].(*ast.BasicLit); ok {
					return []modTarget{{heap: "H_" + unquote(bl.Value)}}, nil
				}
			}
		}
	case *ast.StarExpr:
		// *p : the whole object p points into
		p := c.eval(x.X)
		if p.sort == "iface" {
			// *i for an interface value: the whole object its payload pointer refers to, whatever its type
			term := c.rv1(p)
			for _, ls := range realHeapSorts {
				out = append(out, modTarget{heap: "H_" + ls, obj: [2]string{"(ltyp (iloc " + term + "))", "(lref (iloc " + term + "))"}, kind: 1})
			}
			return
		}
		pt, ok := p.ty.Underlying().(*types.Pointer)
		if !ok {
			return nil, fmt.Errorf("modifies *%s: not a pointer", types.ExprString(x.X))
		}
		term := c.rv1(p)
		lv := leaves(pt.Elem())
		if len(lv) <= 4 {
			// exactly the cells of *p (p may point into the middle of a larger object, e.g. &item.length)
			for i, ls := range lv {
				out = append(out, modTarget{heap: "H_" + ls, loc: locPlus(term, i), kind: 2})
			}
			return
		}
		a, b, _ := locParts(term)
		for _, ls := range uniq(lv) {
			out = append(out, modTarget{heap: "H_" + ls, obj: [2]string{a, b}, kind: 1})
		}
		return
	case *ast.SliceExpr:
		// s[:] : the whole backing object of slice s
		if x.Low == nil && x.High == nil {
			s := c.eval(x.X)
			switch u := s.ty.Underlying().(type) {
			case *types.Slice:
				term := c.rv1(s)
				for _, ls := range uniq(leaves(u.Elem())) {
					out = append(out, modTarget{heap: "H_" + ls, obj: [2]string{"(styp " + term + ")", "(sref " + term + ")"}, kind: 1})
				}
				return
			case *types.Map:
				ks, vs := mapSorts(u)
				m := c.rv1(s)
				out = append(out, modTarget{heap: "MD_" + ks, keys: []string{m}, kind: 3}, modTarget{heap: "ML", keys: []string{m}, kind: 3})
				if vs != "" {
					out = append(out, modTarget{heap: "MV_" + ks + "_" + vs, keys: []string{m}, kind: 3})
				}
				return
			}
		}
	}
	// an lvalue: its cells
	v := c.eval(item)
	if v.addr == "" || v.terms != nil {
		return nil, fmt.Errorf("modifies item %s is not an lvalue", types.ExprString(item))
	}
	for i, ls := range leaves(v.ty) {
		out = append(out, modTarget{heap: "H_" + ls, loc: locPlus(v.addr, i), kind: 2})
	}
	return
}

// modItemHeaps: heaps an item may touch (static, for loop havoc).
func (t *tr) modItemHeaps(fs *FuncSpec, item ast.Expr) []string {
	switch x := item.(type) {
	case *ast.Ident:
		if x.Name == "heap" {
			var hs []string
			for _, s := range realHeapSorts {
				hs = append(hs, "H_"+s)
			}
			for h := range t.heapSorts {
				if strings.HasPrefix(h, "M") {
					hs = append(hs, h)
				}
			}
			return hs
		}
		if _, ok := t.eng.specs.Ghosts[x.Name]; ok {
			return []string{"G_" + x.Name}
		}
	case *ast.CallExpr:
		if id, ok := x.Fun.(*ast.Ident); ok {
			if _, ok := t.eng.specs.Ghosts[id.Name]; ok {
				return []string{"G_" + id.Name}
			}
			if id.Name == "heapof" {
				if bl, ok := x.Args[0].(*ast.BasicLit); ok {
					return []string{"H_" + unquote(bl.Value)}
				}
			}
			if id.Name == "alltype" {
				if bl, ok := x.Args[0].(*ast.BasicLit); ok {
					if ty := t.eng.typeByName(unquote(bl.Value), nil); ty != nil {
						var hs []string
						for _, ls := range uniq(leaves(ty)) {
							hs = append(hs, "H_"+ls)
						}
						return hs
					}
				}
			}
		}
	}
	// type-directed: evaluate with dummy argument terms
	env := &senv{t: t, vars: map[string]*sv{}, lets: map[string]ast.Expr{}}
	if fs.Pkg != "" {
		if p := t.eng.pkgs[fs.Pkg]; p != nil {
			env.pkg = p.Pkg
		}
	}
	ptys := t.paramTypesOf(fs)
	if ptys == nil {
		var hs []string
		for _, s := range realHeapSorts {
			hs = append(hs, "H_"+s)
		}
		return hs
	}
	for i, n := range fs.Params {
		if i < len(ptys) {
			var terms []string
			for range leaves(ptys[i]) {
				terms = append(terms, "dummy")
			}
			env.vars[n] = t.svOfTerms(terms, ptys[i])
		}
	}
	for _, l := range fs.Lets {
		env.lets[l.Name] = l.Expr
	}
	env.letEnv = env
	tmp := map[string]string{}
	for k, v := range t.heap0 {
		tmp[k] = v
	}
	t.dryRun++
	savedFacts := t.specFacts
	t.specFacts = map[string]bool{}
	tg, err := t.evalModItem(item, env, tmp)
	t.specFacts = savedFacts
	t.dryRun--
	if err != nil {
		var hs []string
		for _, s := range realHeapSorts {
			hs = append(hs, "H_"+s)
		}
		return hs
	}
	var hs []string
	for _, m := range tg {
		hs = append(hs, m.heap)
	}
	return uniq(hs)
}

func (t *tr) paramTypesOf(fs *FuncSpec) []types.Type {
	if strings.HasPrefix(fs.Key, "invoke:") {
		ityp, m := t.eng.ifaceMethod(strings.TrimPrefix(fs.Key, "invoke:"))
		if m == nil {
			return nil
		}
		sig := m.Type().(*types.Signature)
		out := []types.Type{ityp}
		for i := 0; i < sig.Params().Len(); i++ {
			out = append(out, sig.Params().At(i).Type())
		}
		return out
	}
	if strings.HasPrefix(fs.Key, "funcvalue:") {
		ty := t.eng.typeByName(strings.TrimPrefix(fs.Key, "funcvalue:"), nil)
		if ty == nil {
			return nil
		}
		sig, ok := ty.Underlying().(*types.Signature)
		if !ok {
			return nil
		}
		var out []types.Type
		for i := 0; i < sig.Params().Len(); i++ {
			out = append(out, sig.Params().At(i).Type())
		}
		return out
	}
	f := t.eng.byName[fs.Key]
	if f == nil {
		return nil
	}
	var out []types.Type
	for _, p := range f.Params {
		out = append(out, p.Type())
	}
	return out
}

// frameExpr: the heap after a call = old heap with the modified places taken from the new version.
func frameExpr(old, nw string, targets []modTarget) (string, bool) {
	expr := old
	type grp struct {
		a, b  string
		cells []string
	}
	var groups []*grp
	gidx := map[string]*grp{}
	wrap := func(m modTarget, prev, next string) string {
		if m.cond == "" {
			return next
		}
		return fmt.Sprintf("(ite %s %s %s)", m.cond, next, prev)
	}
	for _, m := range targets {
		switch m.kind {
		case 0:
			if m.cond == "" {
				return nw, true
			}
			expr = wrap(m, expr, nw)
		case 1:
			expr = wrap(m, expr, fmt.Sprintf("(store %s %s (store (select %s %s) %s (select (select %s %s) %s)))", expr, m.obj[0], expr, m.obj[0], m.obj[1], nw, m.obj[0], m.obj[1]))
		case 2:
			if m.cond != "" {
				expr = wrap(m, expr, sto(expr, m.loc, sel(nw, m.loc)))
				continue
			}
			a, b, c := locParts(m.loc)
			g := gidx[a+"|"+b]
			if g == nil {
				g = &grp{a: a, b: b}
				gidx[a+"|"+b] = g
				groups = append(groups, g)
			}
			g.cells = append(g.cells, c)
		case 3:
			expr = wrap(m, expr, storeKeys(expr, nw, m.keys))
		case 5:
			expr = wrap(m, expr, fmt.Sprintf("(store %s %s (select %s %s))", expr, m.obj[0], nw, m.obj[0]))
		}
	}
	for _, g := range groups {
		arr := fmt.Sprintf("(select (select %s %s) %s)", expr, g.a, g.b)
		for _, c := range g.cells {
			arr = fmt.Sprintf("(store %s %s (select (select (select %s %s) %s) %s))", arr, c, nw, g.a, g.b, c)
		}
		expr = fmt.Sprintf("(store %s %s (store (select %s %s) %s %s))", expr, g.a, expr, g.a, g.b, arr)
	}
	return expr, false
}

func storeKeys(old, nw string, keys []string) string {
	if len(keys) == 0 {
		return nw
	}
	k := keys[0]
	if len(keys) == 1 {
		return fmt.Sprintf("(store %s %s (select %s %s))", old, k, nw, k)
	}
	return fmt.Sprintf("(store %s %s %s)", old, k, storeKeys("(select "+old+" "+k+")", "(select "+nw+" "+k+")", keys[1:]))
}

// applyModifies introduces new versions for the heaps named in the targets, with the frame condition.
func (t *tr) applyModifies(heaps map[string]string, targets []modTarget, guard string) {
	by := map[string][]modTarget{}
	var order []string
	for _, m := range targets {
		if _, ok := by[m.heap]; !ok {
			order = append(order, m.heap)
		}
		by[m.heap] = append(by[m.heap], m)
	}
	sort.Strings(order)
	for _, h := range order {
		old := t.H(heaps, h)
		nw := t.newHeap(h)
		expr, whole := frameExpr(old, nw, by[h])
		if !whole {
			t.assume("", fmt.Sprintf("(= %s %s)", nw, expr))
		}
		heaps[h] = nw
	}
}

// ownTargets evaluates the function's own modifies clause in the pre-state.
func (t *tr) ownTargets() (map[string][]modTarget, bool) {
	if t.ownTg != nil {
		return t.ownTg, true
	}
	fs := t.own
	by := map[string][]modTarget{}
	for i, item := range fs.Modifies {
		tg, err := t.evalModItem(item, t.entryEnv, t.oldHeaps)
		if err != nil {
			t.fatalf("modifies %s: %v", fs.ModSrc[i], err)
			return nil, false
		}
		for _, m := range tg {
			by[m.heap] = append(by[m.heap], m)
		}
	}
	t.ownTg = by
	return by, true
}

// frameGoal: object (ty, ref) of heap h that existed at entry and is not named by modifies has its entry contents
// (cell-level items: all cells but the named ones). "" when the whole heap may change.
func (t *tr) frameGoal(h, cur string, targets []modTarget, ty, ref string) string {
	v0 := t.heapV0(h)
	for _, m := range targets {
		if m.kind == 0 {
			return ""
		}
	}
	ante := []string{fmt.Sprintf("(existed %s)", ref)}
	objF := fmt.Sprintf("(select (select %s %s) %s)", cur, ty, ref)
	obj0 := fmt.Sprintf("(select (select %s %s) %s)", v0, ty, ref)
	lhs := objF
	type grp struct {
		a, b  string
		cells []string
	}
	var groups []*grp
	gidx := map[string]*grp{}
	for _, m := range targets {
		switch m.kind {
		case 1:
			if m.cond != "" {
				ante = append(ante, fmt.Sprintf("(not (and %s (= %s %s) (= %s %s)))", m.cond, ty, m.obj[0], ref, m.obj[1]))
			} else {
				ante = append(ante, fmt.Sprintf("(not (and (= %s %s) (= %s %s)))", ty, m.obj[0], ref, m.obj[1]))
			}
		case 5:
			ante = append(ante, fmt.Sprintf("(not (= %s %s))", ty, m.obj[0]))
		case 2:
			a, b, c := locParts(m.loc)
			if m.cond != "" {
				// conservatively: the whole object may change when the condition holds
				ante = append(ante, fmt.Sprintf("(not (and %s (= %s %s) (= %s %s)))", m.cond, ty, a, ref, b))
				continue
			}
			g := gidx[a+"|"+b]
			if g == nil {
				g = &grp{a: a, b: b}
				gidx[a+"|"+b] = g
				groups = append(groups, g)
			}
			g.cells = append(g.cells, c)
		}
	}
	for _, g := range groups {
		patched := objF
		for _, c := range g.cells {
			patched = fmt.Sprintf("(store %s %s (select %s %s))", patched, c, obj0, c)
		}
		lhs = fmt.Sprintf("(ite (and (= %s %s) (= %s %s)) %s %s)", ty, g.a, ref, g.b, patched, lhs)
	}
	return fmt.Sprintf("(=> (and %s) (= %s %s))", strings.Join(ante, " "), lhs, obj0)
}

// ghostFrameGoal: the ghost heap restored at the modifies targets equals its entry version; for ghosts keyed by an
// object reference only entries of objects that existed at entry are compared (fresh objects start unconstrained).
func (t *tr) ghostFrameGoal(h, cur string, targets []modTarget, fr string) string {
	v0 := t.heapV0(h)
	restored := cur
	for _, m := range targets {
		if m.kind == 0 {
			return ""
		}
		restored = storeKeys(restored, v0, m.keys)
	}
	g := t.eng.specs.Ghosts[h[2:]]
	if g != nil && len(g.Keys) > 0 && g.Keys[0] == "ref" {
		return fmt.Sprintf("(=> (existed %s) (= (select %s %s) (select %s %s)))", fr, restored, fr, v0, fr)
	}
	return fmt.Sprintf("(= %s %s)", restored, v0)
}

// frameObligations: at a return (or a loop back edge), everything that existed at entry and is not named by
// `modifies` is unchanged.
func (t *tr) frameObligations(heaps map[string]string, R string, label string, pos token.Pos, only map[string]bool) {
	by, ok := t.ownTargets()
	if !ok {
		return
	}
	var names []string
	for h := range heaps {
		names = append(names, h)
	}
	sort.Strings(names)
	for _, h := range names {
		if only != nil && !only[h] {
			continue
		}
		cur := heaps[h]
		v0 := t.heapV0(h)
		if cur == v0 || strings.HasPrefix(h, "D_") {
			continue
		}
		if strings.HasPrefix(h, "H_") {
			fty := t.fresh("frame_ty", "Int")
			fref := t.fresh("frame_ref", "Int")
			goal := t.frameGoal(h, cur, by[h], fty, fref)
			if goal == "" {
				continue
			}
			t.oblige("frame", fmt.Sprintf("frame/%s@%s", h, label), R, goal, pos)
		} else if strings.HasPrefix(h, "G_") {
			if t.eng.specs.Scratch[h[2:]] {
				// working storage of a single proof (e.g. an accumulator that is copied into a fresh object at the end): only
				// the function that declares the ghost `scratch` and writes it mentions it; nobody's contract relies on it
				// across a call, so its changes are not part of any frame
				continue
			}
			fr := t.fresh("frame_gref", "Int")
			goal := t.ghostFrameGoal(h, cur, by[h], fr)
			if goal == "" {
				continue
			}
			t.oblige("frame", fmt.Sprintf("frame/%s@%s", h[2:], label), R, goal, pos)
		}
	}
}

// frameAssume: the same statement as an assumption about a havoced loop-header state.
func (t *tr) frameAssume(heaps map[string]string, R string, only map[string]bool) {
	by, ok := t.ownTargets()
	if !ok {
		return
	}
	for h := range only {
		cur := t.H(heaps, h)
		v0 := t.heapV0(h)
		if cur == v0 {
			continue
		}
		if strings.HasPrefix(h, "H_") {
			t.nfresh++
			ty, ref := fmt.Sprintf("fty%d", t.nfresh), fmt.Sprintf("fref%d", t.nfresh)
			goal := t.frameGoal(h, cur, by[h], ty, ref)
			if goal == "" {
				continue
			}
			t.assume(R, fmt.Sprintf("(forall ((%s Int) (%s Int)) (! %s :pattern ((select (select %s %s) %s))))", ty, ref, goal, cur, ty, ref))
		} else if strings.HasPrefix(h, "G_") {
			t.nfresh++
			fr := fmt.Sprintf("fgref%d", t.nfresh)
			goal := t.ghostFrameGoal(h, cur, by[h], fr)
			if goal == "" {
				continue
			}
			if strings.Contains(goal, fr) {
				t.assume(R, fmt.Sprintf("(forall ((%s Int)) (! %s :pattern ((select %s %s))))", fr, goal, cur, fr))
			} else {
				t.assume(R, goal)
			}
		}
	}
}

// ---------------------------------------------------------------- calls

func (t *tr) call(ins ssa.Instruction, cc *ssa.CallCommon, R string, heaps map[string]string, deferred bool) {
	var xval ssa.Value
	if v, ok := ins.(*ssa.Call); ok {
		xval = v
	}
	if b, ok := cc.Value.(*ssa.Builtin); ok {
		t.builtin(ins, xval, cc, b, R, heaps)
		return
	}
	sig := cc.Signature()
	var args [][]string
	var argTypes []types.Type
	name := ""
	var callee *ssa.Function
	dfn, dty := t.devirtualize(cc)
	switch {
	case dfn != nil:
		// the receiver's concrete type is statically known: the call goes to that method (its contract or its body)
		recv := t.v(cc.Value)
		t.oblige("safe", t.nameAt("nil", ins.Pos(), pickCallFun), R, fmt.Sprintf("(not (= (ityp %s) 0))", recv), ins.Pos())
		args = append(args, []string{"(iloc " + recv + ")"})
		argTypes = append(argTypes, dty)
		callee = dfn
		name = dfn.String()
	case cc.IsInvoke():
		recv := t.v(cc.Value)
		args = append(args, []string{recv})
		argTypes = append(argTypes, cc.Value.Type())
		name = "invoke:" + types.TypeString(cc.Value.Type(), nil) + "." + cc.Method.Name()
		t.oblige("safe", t.nameAt("nil", ins.Pos(), pickCallFun), R, fmt.Sprintf("(not (= (ityp %s) 0))", recv), ins.Pos())
	case cc.StaticCallee() != nil:
		callee = cc.StaticCallee()
		name = callee.String()
		if _, isClosure := cc.Value.(*ssa.MakeClosure); isClosure {
			// a closure made in this function: bindings are passed implicitly; contract (if any) sees params only
		}
	case func() bool { k, _ := t.globalFuncCallee(cc); return k != "" }():
		name, callee = t.globalFuncCallee(cc)
	default:
		name = "<dynamic>"
		if k := funcValueKey(cc); k != "" && t.eng.specs.Funcs[k] != nil {
			name = k
		}
		fv := t.v(cc.Value)
		t.oblige("safe", t.nameAt("nilfunc", ins.Pos(), pickCallFun), R, fmt.Sprintf("(not (= %s 0))", fv), ins.Pos())
	}
	for _, a := range cc.Args {
		args = append(args, t.vals(a))
		argTypes = append(argTypes, a.Type())
	}
	// results
	var results [][]string
	var resTypes []types.Type
	var flat []string
	for i := 0; i < sig.Results().Len(); i++ {
		rt := sig.Results().At(i).Type()
		resTypes = append(resTypes, rt)
		var rs []string
		for _, ls := range leaves(rt) {
			n := t.fresh("r_"+sanitize(shortName(name)), smtSort(ls))
			rs = append(rs, n)
		}
		if len(rs) == 1 {
			t.typeFacts(R, rs[0], rt)
		} else {
			t.compositeTypeFacts(R, rs, rt)
		}
		results = append(results, rs)
		flat = append(flat, rs...)
	}
	if xval != nil {
		t.val[xval] = flat
	}
	fs := t.contractFor(cc)
	t.callCount[name]++
	n := t.callCount[name]
	if o, ok := t.callOrd[ins]; ok {
		n = o // ordinal in source order
	}
	if t.own != nil && t.parent == nil {
		for _, ac := range t.own.Asserts2 {
			match := ac.N == n && (name == ac.Callee || strings.HasSuffix(name, "."+ac.Callee) || strings.HasSuffix(name, ")."+ac.Callee))
			if !match {
				// the anchor call may sit inside the helper this call inlines
				for an, ord := range t.callAlias[ins] {
					if ord == ac.N && (an == ac.Callee || strings.HasSuffix(an, "."+ac.Callee) || strings.HasSuffix(an, ")."+ac.Callee)) {
						match = true
					}
				}
			}
			if !match {
				continue
			}
			idx := 0
			for k, bi := range t.curBlock.Instrs {
				if bi == ins {
					idx = k
				}
			}
			penv := t.pointEnv(t.curBlock, idx)
			// arg0, arg1, ...: the arguments of the call the assertion is attached to (receiver first for methods)
			for k := range args {
				if len(args[k]) == 1 && k < len(argTypes) {
					penv.vars[fmt.Sprintf("arg%d", k)] = &sv{ty: argTypes[k], sort: leafSort(argTypes[k]), terms: []string{args[k][0]}}
				}
			}
			term, err := t.evalGoal(ac.Expr, penv, heaps, t.oldHeaps)
			if err != nil {
				t.fatalf("assert %s (%s): %v", ac.Label, ac.Where, err)
				continue
			}
			t.oblige("ensures", fmt.Sprintf("assert/%s@call[%d:%s]", ac.Label, n, shortName(name)), R, term, ins.Pos())
			t.assertsSeen[ac.Label] = true
		}
	}
	if fs != nil && fs.Inline && callee != nil && t.inlineCall(ins, callee, args, R, heaps, xval, flat) {
		return
	}
	if fs == nil {
		if callee != nil && t.inlineCall(ins, callee, args, R, heaps, xval, flat) {
			return
		}
		preU := copyMap(heaps)
		t.unknownCall(name, callee, cc, R, heaps, results, resTypes)
		t.preservePrivate(ins, cc, R, preU, heaps)
		return
	}
	if fs.Trusted {
		t.trustedUsed[fs.Key] = true
	} else {
		t.contractsUsed[fs.Key] = true
	}
	pre := copyMap(heaps)
	env, err := t.calleeEnv(fs, cc, args, argTypes, nil, nil)
	if err != nil {
		t.fatalf("call to %s: %v", name, err)
		return
	}
	for _, rq := range fs.Requires {
		term, err := t.evalGoal(rq.Expr, env, pre, pre)
		if err != nil {
			t.fatalf("requires %s of %s (%s): %v", rq.Label, fs.Key, rq.Where, err)
			continue
		}
		t.oblige("requires", fmt.Sprintf("requires@call[%d:%s]/%s", n, shortName(name), rq.Label), R, term, ins.Pos())
	}
	// frame
	if fs.Havoc {
		m := newModSet()
		t.havocAllReal(m)
		for h := range m.all {
			heaps[h] = t.newHeap(h)
		}
	} else if !fs.Pure {
		var targets []modTarget
		for i, item := range fs.Modifies {
			tg, err := t.evalModItem(item, env, pre)
			if err != nil {
				t.fatalf("modifies %s of %s: %v", fs.ModSrc[i], fs.Key, err)
				continue
			}
			targets = append(targets, tg...)
		}
		t.applyModifies(heaps, targets, R)
	}
	t.preservePrivate(ins, cc, R, pre, heaps)
	env2, err := t.calleeEnv(fs, cc, args, argTypes, results, resTypes)
	if err != nil {
		t.fatalf("call to %s: %v", name, err)
		return
	}
	env2.callerSide = true
	env2.callerPtrs = append([]string{}, t.ptrs...)
	env2.callerEpoch = t.epoch
	t.epoch++ // whatever the callee allocates is newer than everything known here
	isFresh := map[string]bool{}
	for _, f := range fs.Fresh {
		isFresh[f] = true
	}
	for i, rn := range fs.Results {
		if i >= len(results) || len(results[i]) != 1 {
			continue
		}
		ls := leafSort(resTypes[i])
		ref := refOf(ls, results[i][0])
		if ref == "" {
			continue
		}
		if isFresh[rn] {
			// a non-nil fresh result is distinct from every object known so far
			t.assume(R, fmt.Sprintf("(=> (not (= %s 0)) (> (born %s) %d))", ref, ref, env2.callerEpoch))
			t.assume(R, fmt.Sprintf("(=> (not (= %s 0)) (not (existed %s)))", ref, ref))
			t.regPtr(ref)
		} else {
			// may alias an argument; distinct from local allocations that never escape and are not passed
			for _, a := range t.allocs {
				if t.escapes[a.v] {
					continue
				}
				passed := false
				for _, av := range cc.Args {
					if t.taint[av][a.v] {
						passed = true
					}
				}
				if cc.IsInvoke() && t.taint[cc.Value][a.v] {
					passed = true
				}
				if !passed {
					t.assume(R, fmt.Sprintf("(distinct %s %s)", ref, a.ref))
				}
			}
			t.regPtr(ref)
		}
	}
	for _, e := range fs.Ensures {
		if e.Local {
			continue
		}
		term, err := t.evalAssume(e.Expr, env2, heaps, pre)
		if err != nil {
			t.fatalf("ensures %s of %s (%s): %v", e.Label, fs.Key, e.Where, err)
			continue
		}
		t.assume(R, term)
	}
	if fs.Effect && t.own != nil && len(t.own.Crash) > 0 {
		for _, ci := range t.own.Crash {
			term, err := t.evalGoal(ci.Expr, t.entryEnv, heaps, t.oldHeaps)
			if err != nil {
				t.fatalf("crash invariant %s: %v", ci.Label, err)
				continue
			}
			t.oblige("crash", fmt.Sprintf("crash@effect[%d:%s]/%s", n, shortName(name), ci.Label), R, term, ins.Pos())
		}
	}
}

// unknownCall: a callee without contract. It may modify every real heap cell; ghost state is preserved unless the
// callee is hc code (which could run functions whose contracts change ghosts). Recorded as an assumption.
func (t *tr) unknownCall(name string, callee *ssa.Function, cc *ssa.CallCommon, R string, heaps map[string]string, results [][]string, resTypes []types.Type) {
	t.unknownCallees[name] = true
	m := newModSet()
	t.havocAllReal(m)
	if name == "<dynamic>" {
		// an application callback: may change any real heap cell except objects of the library's model types
		// (stated assumption: callbacks do not write library objects), and counts as one callback invocation
		var keep []int
		keepSort := map[string]bool{}
		for _, tn := range t.eng.specs.CallbackFrame {
			if strings.HasPrefix(tn, "heapof(") {
				keepSort["H_"+strings.TrimSuffix(strings.TrimPrefix(tn, "heapof("), ")")] = true
				continue
			}
			if ty := t.eng.typeByName(tn, nil); ty != nil {
				if _, isSlice := ty.Underlying().(*types.Slice); isSlice {
					keep = append(keep, t.eng.sliceTag(ty))
				} else {
					keep = append(keep, t.eng.tag(ty))
				}
			}
		}
		for h := range m.all {
			if keepSort[h] {
				continue
			}
			old := t.H(heaps, h)
			nw := t.newHeap(h)
			heaps[h] = nw
			if strings.HasPrefix(h, "H_") {
				for _, tag := range keep {
					t.assume(R, fmt.Sprintf("(= (select %s %d) (select %s %d))", nw, tag, old, tag))
				}
			}
		}
		if _, ok := t.eng.specs.Ghosts["callcount"]; ok {
			t.setHeap(heaps, "G_callcount", fmt.Sprintf("(+ %s 1)", t.H(heaps, "G_callcount")))
		}
		for i, rs := range results {
			if len(rs) == 1 {
				if ref := refOf(leafSort(resTypes[i]), rs[0]); ref != "" {
					t.regPtr(ref)
				}
			}
		}
		return
	}
	if callee != nil && t.isHC(callee) {
		for _, g := range t.eng.specs.GhostOrder {
			m.addAll("G_" + g)
		}
	}
	for h := range m.all {
		heaps[h] = t.newHeap(h)
	}
	for i, rs := range results {
		if len(rs) == 1 {
			if ref := refOf(leafSort(resTypes[i]), rs[0]); ref != "" {
				t.regPtr(ref)
			}
		}
	}
}

// ---------------------------------------------------------------- builtins

func (t *tr) builtin(ins ssa.Instruction, x ssa.Value, cc *ssa.CallCommon, b *ssa.Builtin, R string, heaps map[string]string) {
	args := cc.Args
	def := func(sort, e string) {
		if x != nil {
			t.define(x, sort, e)
		}
	}
	switch b.Name() {
	case "len":
		switch leafSort(args[0].Type()) {
		case "slice":
			def("Int", "(slen "+t.v(args[0])+")")
		case "str":
			def("Int", "(slen_s "+t.v(args[0])+")")
		case "map":
			m := t.v(args[0])
			def("Int", fmt.Sprintf("(ite (= %s 0) 0 (select %s %s))", m, t.H(heaps, "ML"), m))
			t.assume("", fmt.Sprintf("(>= %s 0)", t.v(x)))
		default:
			if a, ok := args[0].Type().Underlying().(*types.Array); ok {
				def("Int", fmt.Sprint(a.Len()))
			} else if p, ok := args[0].Type().Underlying().(*types.Pointer); ok {
				def("Int", fmt.Sprint(p.Elem().Underlying().(*types.Array).Len()))
			} else {
				t.opaque(x, "len of "+args[0].Type().String())
				t.assume("", "(>= "+t.v(x)+" 0)")
			}
		}
	case "cap":
		if leafSort(args[0].Type()) == "slice" {
			def("Int", "(scap "+t.v(args[0])+")")
		} else {
			t.opaque(x, "cap of "+args[0].Type().String())
		}
	case "append":
		t.appendBuiltin(ins, x, args, R, heaps)
	case "copy":
		t.copyBuiltin(ins, x, args, R, heaps)
	case "delete":
		mt := args[0].Type().Underlying().(*types.Map)
		ks, _ := mapSorts(mt)
		if ks == "" {
			t.abstractf("delete on map with composite key not modelled")
			return
		}
		m, k := t.v(args[0]), t.v(args[1])
		md, ml := t.H(heaps, "MD_"+ks), t.H(heaps, "ML")
		t.setHeap(heaps, "ML", fmt.Sprintf("(ite (= %s 0) %s (store %s %s (ite (select (select %s %s) %s) (- (select %s %s) 1) (select %s %s))))", m, ml, ml, m, md, m, k, ml, m, ml, m))
		t.setHeap(heaps, "MD_"+ks, fmt.Sprintf("(ite (= %s 0) %s (store %s %s (store (select %s %s) %s false)))", m, md, md, m, md, m, k))
	case "print", "println":
	case "panic":
		t.oblige("safe", t.nameAt("panic", ins.Pos(), pickCall), R, "false", ins.Pos())
	case "min", "max":
		a, bb := t.v(args[0]), t.v(args[1])
		op := "<="
		if b.Name() == "max" {
			op = ">="
		}
		def("Int", fmt.Sprintf("(ite (%s %s %s) %s %s)", op, a, bb, a, bb))
	default:
		if x != nil {
			t.opaque(x, "builtin "+b.Name())
		}
	}
}

// elemCopyFact: for composite elements (stride > 1): element i of the destination range equals element i of the source,
// one fact per cell f of the element, phrased over cidx so that the trigger has no arithmetic.
func elemCopyFact(nw, old, dTyp, dRef, dBase, sTyp, sRef, sBase string, k, f int, n string) string {
	return fmt.Sprintf("(forall ((i Int)) (! (=> (and (<= 0 i) (< i %s)) (= (select (select (select %s %s) %s) (cidx %s %d i %d)) (select (select (select %s %s) %s) (cidx %s %d i %d)))) :pattern ((select (select (select %s %s) %s) (cidx %s %d i %d)))))",
		n, nw, dTyp, dRef, dBase, k, f, old, sTyp, sRef, sBase, k, f, nw, dTyp, dRef, dBase, k, f)
}

// blockCopyFacts: cells [dstOff, dstOff+n) of object dst in heap version nw equal cells [srcOff, ...) of src in version old.
func blockCopyFact(nw, old, dTyp, dRef, dOff, sTyp, sRef, sOff, n string) string {
	return fmt.Sprintf("(forall ((y Int)) (! (=> (and (<= %s y) (< y (+ %s %s))) (= (select (select (select %s %s) %s) y) (select (select (select %s %s) %s) (+ %s (- y %s))))) :pattern ((select (select (select %s %s) %s) y))))",
		dOff, dOff, n, nw, dTyp, dRef, old, sTyp, sRef, sOff, dOff, nw, dTyp, dRef)
}

func (t *tr) appendBuiltin(ins ssa.Instruction, x ssa.Value, args []ssa.Value, R string, heaps map[string]string) {
	st := args[0].Type().Underlying().(*types.Slice)
	el := st.Elem()
	k := stride(el)
	s := t.v(args[0])
	r := t.fresh("app", "Slice")
	t.val[x] = []string{r}
	t.typeFacts(R, r, x.Type())
	var eTyp, eRef, eOff, eLen string
	isStr := false
	if len(args) > 1 {
		if leafSort(args[1].Type()) == "str" { // append([]byte, string...)
			isStr = true
			eLen = "(slen_s " + t.v(args[1]) + ")"
		} else {
			e := t.v(args[1])
			eTyp, eRef, eOff, eLen = "(styp "+e+")", "(sref "+e+")", "(soff "+e+")", "(slen "+e+")"
		}
	} else {
		eLen = "0"
	}
	newLen := fmt.Sprintf("(+ (slen %s) %s)", s, eLen)
	inPlace := fmt.Sprintf("(<= %s (scap %s))", newLen, s)
	nr := t.newRef(R)
	t.freshVsHeap(R, nr, heaps)
	tag := t.eng.sliceTag(x.Type())
	t.allocs = append(t.allocs, allocInfo{nr, x})
	t.escapes[x] = true // conservatively
	t.assume(R, fmt.Sprintf("(= (slen %s) %s)", r, newLen))
	t.assume(R, fmt.Sprintf("(ite %s (and (= (styp %s) (styp %s)) (= (sref %s) (sref %s)) (= (soff %s) (soff %s)) (= (scap %s) (scap %s))) (and (= (styp %s) %d) (= (sref %s) %s) (= (soff %s) 0) (>= (scap %s) %s)))",
		inPlace, r, s, r, s, r, s, r, s, r, tag, r, nr, r, r, newLen))
	// cells
	preInt := t.H(heaps, "H_int")
	rTyp, rRef, rOff := "(styp "+r+")", "(sref "+r+")", "(soff "+r+")"
	oldCells := mulConst("(slen "+s+")", k)
	newCells := mulConst(eLen, k)
	elLeaves := leaves(el)
	for _, ls := range uniq(elLeaves) {
		h := "H_" + ls
		old := t.H(heaps, h)
		nw := t.newHeap(h)
		heaps[h] = nw
		// only r's backing object changes
		t.assume(R, fmt.Sprintf("(= %s (store %s %s (store (select %s %s) %s (select (select %s %s) %s))))", nw, old, rTyp, old, rTyp, rRef, nw, rTyp, rRef))
		// prefix preserved (copied when reallocated)
		t.assume(R, blockCopyFact(nw, old, rTyp, rRef, rOff, "(styp "+s+")", "(sref "+s+")", "(soff "+s+")", oldCells))
		if k > 1 {
			for f, fl := range elLeaves {
				if fl != ls {
					continue
				}
				t.assume(R, elemCopyFact(nw, old, rTyp, rRef, rOff, "(styp "+s+")", "(sref "+s+")", "(soff "+s+")", k, f, "(slen "+s+")"))
				if !isStr && len(args) > 1 {
					// appended elements: destination element (len(s) + i) = source element i
					t.assume(R, fmt.Sprintf("(forall ((i Int)) (! (=> (and (<= 0 i) (< i %s)) (= (select (select (select %s %s) %s) (cidx %s %d (+ (slen %s) i) %d)) (select (select (select %s %s) %s) (cidx %s %d i %d)))) :pattern ((select (select (select %s %s) %s) (cidx %s %d i %d)))))",
						eLen, nw, rTyp, rRef, rOff, k, s, f, old, eTyp, eRef, eOff, k, f, old, eTyp, eRef, eOff, k, f))
					// a single appended element (the common case): stated directly, no instantiation needed
					t.assume(R, fmt.Sprintf("(=> (= %s 1) (= (select (select (select %s %s) %s) (cidx %s %d (slen %s) %d)) (select (select (select %s %s) %s) (cidx %s %d 0 %d))))",
						eLen, nw, rTyp, rRef, rOff, k, s, f, old, eTyp, eRef, eOff, k, f))
				}
			}
		}
		// appended elements
		dOff := fmt.Sprintf("(+ %s %s)", rOff, oldCells)
		if isStr {
			str := t.v(args[1])
			t.assume(R, fmt.Sprintf("(forall ((y Int)) (! (=> (and (<= %s y) (< y (+ %s %s))) (= (select (select (select %s %s) %s) y) (sat %s (- y %s)))) :pattern ((select (select (select %s %s) %s) y))))",
				dOff, dOff, newCells, nw, rTyp, rRef, str, dOff, nw, rTyp, rRef))
		} else if len(args) > 1 {
			t.assume(R, blockCopyFact(nw, old, rTyp, rRef, dOff, eTyp, eRef, eOff, newCells))
		}
		// in place: cells of the object outside the appended range are unchanged
		t.assume(R, fmt.Sprintf("(=> %s (forall ((y Int)) (! (=> (not (and (<= %s y) (< y (+ %s %s)))) (= (select (select (select %s %s) %s) y) (select (select (select %s %s) %s) y))) :pattern ((select (select (select %s %s) %s) y)))))",
			inPlace, dOff, dOff, newCells, nw, rTyp, rRef, old, rTyp, rRef, nw, rTyp, rRef))
	}
	if k == 1 && leafSort(el) == "int" {
		nw, old := t.H(heaps, "H_int"), ""
		_ = old
		// the appended-to byte sequence is the concatenation (true by the semantics of append; saves an extensionality proof)
		var eseq string
		if isStr {
			eseq = "(seq_of_str " + t.v(args[1]) + ")"
		} else if len(args) > 1 {
			eseq = fmt.Sprintf("(seqof (select (select %s %s) %s) %s %s)", preInt, eTyp, eRef, eOff, eLen)
		}
		if eseq != "" {
			t.assume(R, fmt.Sprintf("(= (seqof (select (select %s %s) %s) %s (slen %s)) (seq_cat (seqof (select (select %s (styp %s)) (sref %s)) (soff %s) (slen %s)) %s))",
				nw, rTyp, rRef, rOff, r, preInt, s, s, s, s, eseq))
		}
	}
}

func (t *tr) copyBuiltin(ins ssa.Instruction, x ssa.Value, args []ssa.Value, R string, heaps map[string]string) {
	dt := args[0].Type().Underlying().(*types.Slice)
	el := dt.Elem()
	k := stride(el)
	d := t.v(args[0])
	var srcLen string
	isStr := leafSort(args[1].Type()) == "str"
	if isStr {
		srcLen = "(slen_s " + t.v(args[1]) + ")"
	} else {
		srcLen = "(slen " + t.v(args[1]) + ")"
	}
	n := t.fresh("copyn", "Int")
	t.assume("", fmt.Sprintf("(= %s (ite (<= (slen %s) %s) (slen %s) %s))", n, d, srcLen, d, srcLen))
	if x != nil {
		t.val[x] = []string{n}
	}
	cells := mulConst(n, k)
	dTyp, dRef, dOff := "(styp "+d+")", "(sref "+d+")", "(soff "+d+")"
	for _, ls := range uniq(leaves(el)) {
		h := "H_" + ls
		old := t.H(heaps, h)
		nw := t.newHeap(h)
		heaps[h] = nw
		// n == 0 (e.g. nil destination): nothing changes
		t.assume(R, fmt.Sprintf("(=> (= %s 0) (= %s %s))", n, nw, old))
		t.assume(R, fmt.Sprintf("(= %s (store %s %s (store (select %s %s) %s (select (select %s %s) %s))))", nw, old, dTyp, old, dTyp, dRef, nw, dTyp, dRef))
		if isStr {
			str := t.v(args[1])
			t.assume(R, fmt.Sprintf("(forall ((y Int)) (! (=> (and (<= %s y) (< y (+ %s %s))) (= (select (select (select %s %s) %s) y) (sat %s (- y %s)))) :pattern ((select (select (select %s %s) %s) y))))",
				dOff, dOff, cells, nw, dTyp, dRef, str, dOff, nw, dTyp, dRef))
		} else {
			s := t.v(args[1])
			t.assume(R, blockCopyFact(nw, old, dTyp, dRef, dOff, "(styp "+s+")", "(sref "+s+")", "(soff "+s+")", cells))
		}
		t.assume(R, fmt.Sprintf("(forall ((y Int)) (! (=> (not (and (<= %s y) (< y (+ %s %s)))) (= (select (select (select %s %s) %s) y) (select (select (select %s %s) %s) y))) :pattern ((select (select (select %s %s) %s) y))))",
			dOff, dOff, cells, nw, dTyp, dRef, old, dTyp, dRef, nw, dTyp, dRef))
	}
}

// inlineCall: an hc function without contract is not a black box: its body is translated in place (bounded depth and
// size, no recursion, no closures with captured variables). A contract always takes precedence; this only keeps small
// helpers (and harmless extract-function refactorings) from turning into a havoc of the whole heap.
func (t *tr) inlineCall(ins ssa.Instruction, callee *ssa.Function, args [][]string, R string, heaps map[string]string, xval ssa.Value, resultConsts []string) bool {
	if !t.isHC(callee) || len(callee.Blocks) == 0 || len(callee.Blocks) > 60 || len(callee.FreeVars) > 0 || t.depth >= 3 {
		return false
	}
	for a := t; a != nil; a = a.parent {
		if a.fn == callee {
			return false
		}
	}
	for _, b := range callee.Blocks {
		for _, i := range b.Instrs {
			switch i.(type) {
			case *ssa.Go, *ssa.Select, *ssa.Send:
				return false
			}
		}
	}
	root := t
	for root.parent != nil {
		root = root.parent
	}
	root.inlineN++
	ct := newTr(t.eng, callee)
	ct.own = nil
	ct.parent = t
	ct.depth = t.depth + 1
	ct.pfx = fmt.Sprintf("i%d_", root.inlineN)
	ct.heapN, ct.heap0, ct.heapSorts = t.heapN, t.heap0, t.heapSorts
	ct.nfresh = t.nfresh
	ct.ptrs = append([]string{}, t.ptrs...)
	ct.epoch = t.epoch
	ct.entryReach = R
	ct.entryHeapsInl = heaps
	ct.unknownCallees, ct.trustedUsed, ct.contractsUsed, ct.abstracted = t.unknownCallees, t.trustedUsed, t.contractsUsed, t.abstracted
	ct.specFacts = t.specFacts
	ct.opaquePreds, ct.footprint = t.opaquePreds, t.footprint
	ct.oblNames = t.oblNames
	ct.predDefs, ct.qsort = t.predDefs, t.qsort
	if len(args) != len(callee.Params) {
		return false
	}
	for i, p := range callee.Params {
		ct.val[p] = args[i]
	}
	if err := ct.run(); err != nil || len(ct.fatal) > 0 {
		t.abstractf("could not inline %s (%v %v): treated as unknown callee", shortName(callee.String()), err, ct.fatal)
		t.nfresh = ct.nfresh
		return false
	}
	t.nfresh = ct.nfresh
	t.decls.WriteString(ct.decls.String())
	t.out.WriteString(ct.out.String())
	t.ptrs = ct.ptrs
	t.epoch = ct.epoch
	t.allocs = append(t.allocs, ct.allocs...)
	for a, e := range ct.escapes {
		t.escapes[a] = e
	}
	// whatever the callee returns is from now on a value of the caller, which this function's own escape analysis does
	// not follow (the call result carries no allocation site): treat every allocation that may be returned as escaped
	for _, b := range callee.Blocks {
		for _, ins := range b.Instrs {
			if r, ok := ins.(*ssa.Return); ok {
				for _, rv := range r.Results {
					for a := range ct.taint[rv] {
						t.escapes[a] = true
					}
				}
			}
		}
	}
	t.abstractf("callee %s has no contract: body inlined", shortName(callee.String()))
	if len(ct.retInfo) == 0 {
		// never returns (panics on every path): the rest of this block is unreachable
		t.assume("", fmt.Sprintf("(not %s)", R))
		return true
	}
	// results: the merged return values; heaps: merged over the return sites
	for k, rc := range resultConsts {
		e := ct.retInfo[len(ct.retInfo)-1].vals[k]
		for i := len(ct.retInfo) - 2; i >= 0; i-- {
			e = fmt.Sprintf("(ite %s %s %s)", ct.retInfo[i].R, ct.retInfo[i].vals[k], e)
		}
		t.assume(R, fmt.Sprintf("(= %s %s)", rc, e))
	}
	var edges []string
	var hs []map[string]string
	for _, ri := range ct.retInfo {
		edges = append(edges, ri.R)
		hs = append(hs, ri.heaps)
	}
	merged := t.mergeHeaps(edges, hs)
	for h, v := range merged {
		heaps[h] = v
	}
	// the call returns only if some return site was reached
	if len(edges) > 0 {
		t.assume(R, "(or "+strings.Join(edges, " ")+")")
	}
	return true
}
