package main

// Contract files: structured comments (`//@ ...`) in /repo/<pkg>/contracts_verif.go (build tag verif,
// comment-only) for hc's own functions, and /verif/contracts/trusted/*.spec for assumed contracts of
// code that is not verified. This file parses the block structure; expressions are compiled in sexpr.go.

import (
	"fmt"
	"go/ast"
	"go/parser"
	"os"
	"path/filepath"
	"regexp"
	"sort"
	"strconv"
	"strings"
)

type Clause struct {
	Label string
	Src   string   // source text (after ==> rewriting)
	Expr  ast.Expr // parsed
	Where string   // file:line of the clause
	Local bool     // "detail": proved for the function itself, not assumed at its call sites (callers do not need it)
}

type LoopSpec struct {
	Ordinal    int
	Invariants []*Clause
	Decreases  *Clause
}

type LetDef struct {
	Name string
	Expr ast.Expr
	Src  string
}

type FuncSpec struct {
	Key      string   // ssa function string, or "invoke:<iface type string>.<method>"
	Short    string   // as written
	Params   []string // positional names (receiver first for methods; invoke: receiver value first)
	Results  []string
	Requires []*Clause
	Ensures  []*Clause
	Modifies []ast.Expr
	ModSrc   []string
	Lets     []LetDef
	Loops    map[int]*LoopSpec
	Fresh    []string // result names that are freshly allocated (distinct from every existing object)
	Crash    []*Clause
	Trusted  bool // assumed, body not verified
	Pure     bool // modifies nothing
	Effect   bool // changes durable state (C19 crash points)
	Havoc    bool // modifies every heap (explicit)
	NoPanic  bool // trusted: callee never panics (default for trusted)
	Pkg      string
	Where    string
	Asserts  map[string]bool
	Asserts2 []AssertClause // obligations at call sites
	GhostSets []GhostSet  // ghost assignments attached to program points
	GhostInit []GhostInit // ghost entries of freshly allocated results defined at return
	NoWrap   bool     // stated assumption: unsigned additions in this function do not wrap around
	Opaque   []string // predicates kept opaque (uninterpreted over their computed footprint) while verifying this function
	AbstractAs string // own postconditions are proved through the ghost abstractions, an interface-typed argument of an
	                  // abstraction being the implementation object of this (pointer) type - for constructors that return the interface
	Inline   bool     // callers translate the body in place (the contract is verified for the function on its own, not used at call sites)
	Refines  []string // interface methods ("pkg.Iface.Method") whose contract this implementation must satisfy
}

// AssertClause: `assert label before <callee suffix>#<n>: expr` - an obligation checked just before the n-th call of
// that callee, over the source-level variables in scope there.
type AssertClause struct {
	Label  string
	Callee string
	N      int
	Expr   ast.Expr
	Src    string
	Where  string
}

// GhostSet: `ghostset label after store <Field>#<n>: g(k1, k2) = expr` or `ghostset label before <callee>#<n>: g(k) = expr`
// - a specification-only assignment executed at that program point (the n-th store to a field of that name / the n-th
// call of that callee, in source order). The ghost must be covered by the function's modifies clause like any write.
type GhostSet struct {
	Label  string
	Store  string // field name (after store) or ""
	Callee string // callee suffix (before/after call) or ""
	After  bool   // after the call (its effects included)
	N      int
	Ghost  string
	Keys   []ast.Expr
	Val    ast.Expr
	Src    string
	Where  string
}

type GhostInit struct {
	Ghost string
	Key2  ast.Expr // second key (two-key ghosts, entry form)
	Key   ast.Expr
	Val   ast.Expr
	Src   string
}

type GhostDecl struct {
	Name string
	Keys []string // ref | str | int
	Val  string   // bool | int | str | seq | iface | loc
}

type SpecFunc struct {
	Name   string
	Params []string // sorts
	PNames []string
	Result string
	Body   ast.Expr // optional definition
	Src    string
}

type Pred struct {
	Name   string
	Params []string
	Body   ast.Expr
	Src    string
	Pkg    string
}

type Axiom struct {
	Name string
	Expr ast.Expr
	Src  string
	Raw  string // raw SMT if given as smt("...")
}

type Specs struct {
	Funcs   map[string]*FuncSpec
	Ghosts  map[string]*GhostDecl
	GhostOrder []string
	SFuncs  map[string]*SpecFunc
	SFOrder []string
	Preds   map[string]*Pred
	Axioms  []*Axiom
	Globals map[string]string // "pkgpath.Var" -> "nonnil" (global invariants)
	Errors  []string
	CallbackFrame []string // allocation types that calls of unknown function values (application callbacks) never modify
	TypeInvs map[string]bool // predicate names that are object invariants (implicit precondition of every interface call)
	Abstractions map[string]*Pred // ghost name -> definition over the implementing type's fields (refinement checks)
	Writers []WriterRule
	Locked  []LockRule
	Scratch map[string]bool // ghosts that are working storage of one function's proof: no frame obligations for them
}

// LockRule: in Func, every call to one of Calls happens while the mutex in field Field of the receiver is held
// (static dominance check: a Lock on that field dominates the call, no Unlock on it can run before the call).
type LockRule struct {
	Prop  string
	Func  string
	Field string
	Calls []string
	Where string
}

// WriterRule: the listed fields of a struct type may only be stored to inside the listed functions (static scan).
type WriterRule struct {
	Prop    string
	Type    string
	Fields  []string
	Allowed []string
	Where   string
}

func newSpecs() *Specs {
	return &Specs{Funcs: map[string]*FuncSpec{}, Ghosts: map[string]*GhostDecl{}, SFuncs: map[string]*SpecFunc{}, Preds: map[string]*Pred{}, Globals: map[string]string{}, Abstractions: map[string]*Pred{}, TypeInvs: map[string]bool{}, Scratch: map[string]bool{}}
}

var reSpecLine = regexp.MustCompile(`^//\s?@(.*)$`)

// extractSpecLines returns the //@ lines of a Go source (or .spec) text with their line numbers.
func extractSpecLines(text string) (lines []string, nums []int) {
	for i, l := range strings.Split(text, "\n") {
		t := strings.TrimSpace(l)
		if m := reSpecLine.FindStringSubmatch(t); m != nil {
			lines = append(lines, strings.TrimRight(m[1], " \t"))
			nums = append(nums, i+1)
		}
	}
	return
}

var clauseKeywords = []string{"requires", "ensures", "modifies", "loop", "invariant", "decreases", "let", "fresh", "pure", "trusted", "effect", "crash", "havoc", "assume", "refines", "ghostinit", "assert", "opaque", "inline", "detail", "ghostset", "abstractas"}
var blockKeywords = []string{"func", "invoke", "funcvalue", "ghost", "spec", "pred", "axiom", "global", "abstraction", "writers", "typeinv", "callbackframe", "locked", "scratch"}

func firstWord(s string) (string, string) {
	s = strings.TrimSpace(s)
	i := strings.IndexAny(s, " \t")
	if i < 0 {
		return s, ""
	}
	return s[:i], strings.TrimSpace(s[i+1:])
}

func isIn(w string, l []string) bool {
	for _, x := range l {
		if x == w {
			return true
		}
	}
	return false
}

// stripLineComment removes a trailing "// ..." that is not inside a string literal.
func stripLineComment(s string) string {
	inStr := false
	for i := 0; i < len(s)-1; i++ {
		if s[i] == '"' && (i == 0 || s[i-1] != '\\') {
			inStr = !inStr
		}
		if !inStr && s[i] == '/' && s[i+1] == '/' {
			return strings.TrimSpace(s[:i])
		}
	}
	return s
}

// rewriteImplies turns `a ==> b` (lowest precedence, right assoc, at paren depth 0 of each group) into implies(a, b).
func rewriteImplies(s string) string {
	// process innermost parenthesised groups recursively
	var out strings.Builder
	depth := 0
	start := -1
	var pieces []string // top-level split by ==>
	last := 0
	inStr := false
	for i := 0; i < len(s); i++ {
		c := s[i]
		if c == '"' && (i == 0 || s[i-1] != '\\') {
			inStr = !inStr
		}
		if inStr {
			continue
		}
		switch c {
		case '(', '[':
			if depth == 0 {
				start = i
			}
			depth++
		case ')', ']':
			depth--
		case '=':
			if depth == 0 && i+2 < len(s) && s[i+1] == '=' && s[i+2] == '>' {
				pieces = append(pieces, s[last:i])
				last = i + 3
				i += 2
			}
		}
	}
	_ = start
	pieces = append(pieces, s[last:])
	for i := range pieces {
		pieces[i] = rewriteInner(pieces[i])
	}
	if len(pieces) == 1 {
		return pieces[0]
	}
	// right assoc
	r := pieces[len(pieces)-1]
	for i := len(pieces) - 2; i >= 0; i-- {
		r = "implies(" + pieces[i] + ", " + r + ")"
	}
	out.WriteString(r)
	return out.String()
}

// rewriteInner applies rewriteImplies inside every parenthesised / bracketed group and call argument.
func rewriteInner(s string) string {
	var out strings.Builder
	inStr := false
	for i := 0; i < len(s); i++ {
		c := s[i]
		if c == '"' && (i == 0 || s[i-1] != '\\') {
			inStr = !inStr
		}
		if !inStr && (c == '(' || c == '[') {
			// find matching
			closeCh := byte(')')
			if c == '[' {
				closeCh = ']'
			}
			d := 0
			j := i
			in2 := false
			for ; j < len(s); j++ {
				if s[j] == '"' && (j == 0 || s[j-1] != '\\') {
					in2 = !in2
				}
				if in2 {
					continue
				}
				if s[j] == '(' || s[j] == '[' {
					d++
				} else if s[j] == ')' || s[j] == ']' {
					d--
					if d == 0 {
						break
					}
				}
			}
			if j >= len(s) {
				out.WriteString(s[i:])
				return out.String()
			}
			inner := s[i+1 : j]
			// split on top-level commas, rewrite each
			args := splitTop(inner, ',')
			for k := range args {
				args[k] = rewriteImplies(args[k])
			}
			out.WriteByte(c)
			out.WriteString(strings.Join(args, ","))
			out.WriteByte(closeCh)
			i = j
			continue
		}
		out.WriteByte(c)
	}
	return out.String()
}

func splitTop(s string, sep byte) []string {
	var parts []string
	d := 0
	last := 0
	inStr := false
	for i := 0; i < len(s); i++ {
		c := s[i]
		if c == '"' && (i == 0 || s[i-1] != '\\') {
			inStr = !inStr
		}
		if inStr {
			continue
		}
		switch c {
		case '(', '[', '{':
			d++
		case ')', ']', '}':
			d--
		default:
			if c == sep && d == 0 {
				parts = append(parts, s[last:i])
				last = i + 1
			}
		}
	}
	parts = append(parts, s[last:])
	return parts
}

func parseSpecExpr(src string) (ast.Expr, string, error) {
	rw := rewriteImplies(src)
	e, err := parser.ParseExpr(rw)
	if err != nil {
		return nil, rw, fmt.Errorf("cannot parse %q: %v", rw, err)
	}
	return e, rw, nil
}

var reLabel = regexp.MustCompile(`^([A-Za-z_][A-Za-z0-9_]*)\s*:\s*(.*)$`)

func (sp *Specs) errf(where string, f string, a ...interface{}) {
	sp.Errors = append(sp.Errors, where+": "+fmt.Sprintf(f, a...))
}

// parseSpecText parses the //@ lines of one file. pkgPath is the package the file belongs to ("" for trusted specs).
func (sp *Specs) parseSpecText(file, text, pkgPath string) {
	lines, nums := extractSpecLines(text)
	// merge continuation lines into logical lines
	type ll struct {
		s string
		n int
	}
	var logical []ll
	for i, l := range lines {
		l = stripLineComment(l)
		if strings.TrimSpace(l) == "" {
			continue
		}
		w, _ := firstWord(l)
		if isIn(w, clauseKeywords) || isIn(w, blockKeywords) {
			logical = append(logical, ll{strings.TrimSpace(l), nums[i]})
		} else if len(logical) > 0 {
			logical[len(logical)-1].s += " " + strings.TrimSpace(l)
		} else {
			sp.errf(fmt.Sprintf("%s:%d", file, nums[i]), "stray spec line %q", l)
		}
	}
	var cur *FuncSpec
	var curLoop *LoopSpec
	for _, l := range logical {
		where := fmt.Sprintf("%s:%d", filepath.Base(file), l.n)
		w, rest := firstWord(l.s)
		mkClause := func(rest string, idx int, kind string) *Clause {
			label := ""
			if m := reLabel.FindStringSubmatch(rest); m != nil && !strings.HasPrefix(m[2], "=") {
				label, rest = m[1], m[2]
			}
			if label == "" {
				label = fmt.Sprint(idx)
			}
			e, rw, err := parseSpecExpr(rest)
			if err != nil {
				sp.errf(where, "%s: %v", kind, err)
				return nil
			}
			return &Clause{Label: label, Src: rw, Expr: e, Where: where}
		}
		switch w {
		case "func", "invoke", "funcvalue":
			cur = sp.parseHeader(w, rest, pkgPath, where)
			curLoop = nil
			if cur != nil {
				if old, dup := sp.Funcs[cur.Key]; dup {
					sp.errf(where, "duplicate contract for %s (first at %s)", cur.Key, old.Where)
				}
				sp.Funcs[cur.Key] = cur
			}
		case "ghost":
			cur = nil
			// ghost name(k1, k2) val
			m := regexp.MustCompile(`^([A-Za-z_][A-Za-z0-9_]*)\(([^)]*)\)\s*([a-z0-9]+)$`).FindStringSubmatch(rest)
			if m == nil {
				sp.errf(where, "bad ghost declaration %q", rest)
				continue
			}
			g := &GhostDecl{Name: m[1], Val: m[3]}
			for _, k := range strings.Split(m[2], ",") {
				if k = strings.TrimSpace(k); k != "" {
					g.Keys = append(g.Keys, k)
				}
			}
			if o, dup := sp.Ghosts[g.Name]; dup {
				if fmt.Sprint(o.Keys, o.Val) != fmt.Sprint(g.Keys, g.Val) {
					sp.errf(where, "ghost %s redeclared differently", g.Name)
				}
				continue
			}
			sp.Ghosts[g.Name] = g
			sp.GhostOrder = append(sp.GhostOrder, g.Name)
		case "spec":
			cur = nil
			// spec func name(a sort, b sort) sort [= expr]
			w2, r2 := firstWord(rest)
			if w2 != "func" {
				sp.errf(where, "expected 'spec func'")
				continue
			}
			body := ""
			if i := strings.Index(r2, " = "); i >= 0 {
				body = strings.TrimSpace(r2[i+3:])
				r2 = strings.TrimSpace(r2[:i])
			}
			m := regexp.MustCompile(`^([A-Za-z_][A-Za-z0-9_]*)\(([^)]*)\)\s*([a-z0-9]+)$`).FindStringSubmatch(r2)
			if m == nil {
				sp.errf(where, "bad spec func %q", r2)
				continue
			}
			sf := &SpecFunc{Name: m[1], Result: m[3], Src: body}
			for _, p := range strings.Split(m[2], ",") {
				p = strings.TrimSpace(p)
				if p == "" {
					continue
				}
				f := strings.Fields(p)
				if len(f) == 2 {
					sf.PNames = append(sf.PNames, f[0])
					sf.Params = append(sf.Params, f[1])
				} else {
					sf.PNames = append(sf.PNames, fmt.Sprintf("a%d", len(sf.Params)))
					sf.Params = append(sf.Params, f[0])
				}
			}
			if body != "" {
				e, _, err := parseSpecExpr(body)
				if err != nil {
					sp.errf(where, "spec func body: %v", err)
					continue
				}
				sf.Body = e
			}
			if _, dup := sp.SFuncs[sf.Name]; !dup {
				sp.SFuncs[sf.Name] = sf
				sp.SFOrder = append(sp.SFOrder, sf.Name)
			}
		case "typeinv":
			cur = nil
			sp.TypeInvs[strings.TrimSpace(rest)] = true
		case "scratch":
			cur = nil
			sp.Scratch[strings.TrimSpace(rest)] = true
		case "callbackframe":
			cur = nil
			for _, ty := range strings.Split(rest, ",") {
				if ty = strings.TrimSpace(ty); ty != "" {
					sp.CallbackFrame = append(sp.CallbackFrame, ty)
				}
			}
		case "locked":
			cur = nil
			// locked <PROP> <func key> field <name> calls a, b
			m := regexp.MustCompile(`^(C[0-9]+)\s+(\S+)\s+field\s+(\S+)\s+calls\s+(.*)$`).FindStringSubmatch(rest)
			if m == nil {
				sp.errf(where, "bad locked rule")
				continue
			}
			lr := LockRule{Prop: m[1], Func: m[2], Field: m[3], Where: where}
			for _, c := range strings.Split(m[4], ",") {
				if c = strings.TrimSpace(c); c != "" {
					lr.Calls = append(lr.Calls, c)
				}
			}
			sp.Locked = append(sp.Locked, lr)
		case "writers":
			cur = nil
			// writers <pkgpath.Type> fields f1,f2 only <func key>; <func key>
			m := regexp.MustCompile(`^(C[0-9]+)\s+(\S+)\s+fields\s+([A-Za-z0-9_, ]+)\s+only\s+(.*)$`).FindStringSubmatch(rest)
			if m == nil {
				sp.errf(where, "bad writers rule")
				continue
			}
			wr := WriterRule{Prop: m[1], Type: m[2], Where: where}
			for _, f := range strings.Split(m[3], ",") {
				wr.Fields = append(wr.Fields, strings.TrimSpace(f))
			}
			for _, f := range strings.Split(m[4], ";") {
				if f = strings.TrimSpace(f); f != "" {
					wr.Allowed = append(wr.Allowed, f)
				}
			}
			sp.Writers = append(sp.Writers, wr)
		case "abstraction", "pred":
			isAbs := w == "abstraction"
			cur = nil
			// pred name(a, b) = expr
			i := strings.Index(rest, "=")
			if i < 0 {
				sp.errf(where, "pred without body")
				continue
			}
			head, body := strings.TrimSpace(rest[:i]), strings.TrimSpace(rest[i+1:])
			m := regexp.MustCompile(`^([A-Za-z_][A-Za-z0-9_]*)\(([^)]*)\)$`).FindStringSubmatch(head)
			if m == nil {
				sp.errf(where, "bad pred header %q", head)
				continue
			}
			e, rw, err := parseSpecExpr(body)
			if err != nil {
				sp.errf(where, "pred body: %v", err)
				continue
			}
			p := &Pred{Name: m[1], Body: e, Src: rw, Pkg: pkgPath}
			for _, a := range strings.Split(m[2], ",") {
				if a = strings.TrimSpace(a); a != "" {
					p.Params = append(p.Params, a)
				}
			}
			if isAbs {
				sp.Abstractions[p.Name] = p
			} else {
				sp.Preds[p.Name] = p
			}
		case "axiom":
			cur = nil
			name := ""
			if m := reLabel.FindStringSubmatch(rest); m != nil {
				name, rest = m[1], m[2]
			}
			ax := &Axiom{Name: name, Src: rest}
			if strings.HasPrefix(rest, "smt(") {
				// raw SMT-LIB text: smt("...")
				e, err := parser.ParseExpr(rest)
				if err == nil {
					if ce, ok := e.(*ast.CallExpr); ok && len(ce.Args) == 1 {
						if bl, ok := ce.Args[0].(*ast.BasicLit); ok {
							ax.Raw = unquote(bl.Value)
						}
					}
				}
				if ax.Raw == "" {
					sp.errf(where, "bad raw axiom")
					continue
				}
			} else {
				e, rw, err := parseSpecExpr(rest)
				if err != nil {
					sp.errf(where, "axiom: %v", err)
					continue
				}
				ax.Expr, ax.Src = e, rw
			}
			sp.Axioms = append(sp.Axioms, ax)
		case "global":
			cur = nil
			// global <pkgpath.Var> nonnil
			f := strings.Fields(rest)
			if len(f) == 2 {
				sp.Globals[f[0]] = f[1]
			} else {
				sp.errf(where, "bad global line")
			}
		default:
			if cur == nil {
				sp.errf(where, "clause %q outside a func block", w)
				continue
			}
			switch w {
			case "requires":
				if c := mkClause(rest, len(cur.Requires), "requires"); c != nil {
					cur.Requires = append(cur.Requires, c)
				}
			case "ensures":
				if c := mkClause(rest, len(cur.Ensures), "ensures"); c != nil {
					cur.Ensures = append(cur.Ensures, c)
				}
			case "detail":
				if c := mkClause(rest, len(cur.Ensures), "ensures"); c != nil {
					c.Local = true
					cur.Ensures = append(cur.Ensures, c)
				}
			case "crash":
				if c := mkClause(rest, len(cur.Crash), "crash"); c != nil {
					cur.Crash = append(cur.Crash, c)
				}
			case "modifies":
				for _, item := range splitTop(rest, ',') {
					item = strings.TrimSpace(item)
					if item == "" {
						continue
					}
					e, err := parser.ParseExpr(item)
					if err != nil {
						sp.errf(where, "modifies %q: %v", item, err)
						continue
					}
					cur.Modifies = append(cur.Modifies, e)
					cur.ModSrc = append(cur.ModSrc, item)
				}
			case "loop":
				var k int
				if _, err := fmt.Sscanf(rest, "%d", &k); err != nil {
					sp.errf(where, "loop ordinal: %v", err)
					continue
				}
				curLoop = &LoopSpec{Ordinal: k}
				cur.Loops[k] = curLoop
			case "invariant":
				if curLoop == nil {
					sp.errf(where, "invariant outside loop")
					continue
				}
				if c := mkClause(rest, len(curLoop.Invariants), "invariant"); c != nil {
					curLoop.Invariants = append(curLoop.Invariants, c)
				}
			case "decreases":
				if curLoop == nil {
					sp.errf(where, "decreases outside loop")
					continue
				}
				curLoop.Decreases = mkClause(rest, 0, "decreases")
			case "let":
				i := strings.Index(rest, "=")
				if i < 0 {
					sp.errf(where, "bad let")
					continue
				}
				e, rw, err := parseSpecExpr(strings.TrimSpace(rest[i+1:]))
				if err != nil {
					sp.errf(where, "let: %v", err)
					continue
				}
				cur.Lets = append(cur.Lets, LetDef{Name: strings.TrimSpace(rest[:i]), Expr: e, Src: rw})
			case "fresh":
				for _, n := range strings.Split(rest, ",") {
					cur.Fresh = append(cur.Fresh, strings.TrimSpace(n))
				}
			case "assert":
				m := regexp.MustCompile(`^([A-Za-z_][A-Za-z0-9_]*)\s+before\s+(\S+)#([0-9]+)\s*:\s*(.*)$`).FindStringSubmatch(rest)
				if m == nil {
					sp.errf(where, "bad assert clause (assert label before callee#n: expr)")
					continue
				}
				e, rw, err := parseSpecExpr(m[4])
				if err != nil {
					sp.errf(where, "assert: %v", err)
					continue
				}
				n, _ := strconv.Atoi(m[3])
				cur.Asserts2 = append(cur.Asserts2, AssertClause{Label: m[1], Callee: m[2], N: n, Expr: e, Src: rw, Where: where})
			case "ghostset":
				m := regexp.MustCompile(`^([A-Za-z_][A-Za-z0-9_]*)\s+(after\s+store|after|before)\s+(\S+)#([0-9]+)\s*:\s*([A-Za-z_][A-Za-z0-9_]*)\((.*?)\)\s*=\s*(.*)$`).FindStringSubmatch(rest)
				if m == nil {
					sp.errf(where, "bad ghostset clause (ghostset label after store Field#n: g(keys) = expr)")
					continue
				}
				gs := GhostSet{Label: m[1], Ghost: m[5], Src: rest, Where: where}
				gs.N, _ = strconv.Atoi(m[4])
				if strings.HasSuffix(m[2], "store") {
					gs.Store = m[3]
				} else {
					gs.Callee = m[3]
					gs.After = m[2] == "after"
				}
				bad := false
				for _, k := range splitTop(m[6], ',') {
					ke, _, err := parseSpecExpr(strings.TrimSpace(k))
					if err != nil {
						sp.errf(where, "ghostset key: %v", err)
						bad = true
					}
					gs.Keys = append(gs.Keys, ke)
				}
				ve, _, err := parseSpecExpr(m[7])
				if err != nil {
					sp.errf(where, "ghostset value: %v", err)
					bad = true
				}
				gs.Val = ve
				if !bad {
					cur.GhostSets = append(cur.GhostSets, gs)
				}
			case "ghostinit":
				// ghostinit name(key) = value   : key must denote an object allocated by this function
				m := regexp.MustCompile(`^([A-Za-z_][A-Za-z0-9_]*)\((.*)\)\s*=\s*(.*)$`).FindStringSubmatch(rest)
				if m == nil {
					sp.errf(where, "bad ghostinit")
					continue
				}
				kparts := splitTop(m[2], ',')
				ke, _, err1 := parseSpecExpr(strings.TrimSpace(kparts[0]))
				ve, _, err2 := parseSpecExpr(m[3])
				if err1 != nil || err2 != nil {
					sp.errf(where, "ghostinit: %v %v", err1, err2)
					continue
				}
				gi := GhostInit{Ghost: m[1], Key: ke, Val: ve, Src: rest}
				if len(kparts) == 2 {
					k2, _, err3 := parseSpecExpr(strings.TrimSpace(kparts[1]))
					if err3 != nil {
						sp.errf(where, "ghostinit: %v", err3)
						continue
					}
					gi.Key2 = k2
				}
				cur.GhostInit = append(cur.GhostInit, gi)
			case "assume":
				if strings.TrimSpace(rest) == "nowrap" {
					cur.NoWrap = true
				} else {
					sp.errf(where, "unknown assumption %q", rest)
				}
			case "opaque":
				for _, n := range strings.Split(rest, ",") {
					if n = strings.TrimSpace(n); n != "" {
						cur.Opaque = append(cur.Opaque, n)
					}
				}
			case "refines":
				cur.Refines = append(cur.Refines, strings.Trim(strings.TrimSpace(rest), "\""))
			case "abstractas":
				cur.AbstractAs = strings.Trim(strings.TrimSpace(rest), "\"")
			case "inline":
				cur.Inline = true
			case "pure":
				cur.Pure = true
			case "trusted":
				cur.Trusted = true
			case "effect":
				cur.Effect = true
			case "havoc":
				cur.Havoc = true
			}
		}
	}
}

func unquote(s string) string {
	if len(s) >= 2 && (s[0] == '"' || s[0] == '`') {
		if s[0] == '`' {
			return s[1 : len(s)-1]
		}
		var out strings.Builder
		for i := 1; i < len(s)-1; i++ {
			if s[i] == '\\' && i+1 < len(s)-1 {
				i++
				switch s[i] {
				case 'n':
					out.WriteByte('\n')
				case 't':
					out.WriteByte('\t')
				default:
					out.WriteByte(s[i])
				}
				continue
			}
			out.WriteByte(s[i])
		}
		return out.String()
	}
	return s
}

var reHdrMethod = regexp.MustCompile(`^\(\s*([A-Za-z_][A-Za-z0-9_]*)\s+(\*?)([A-Za-z_][A-Za-z0-9_]*)\s*\)\s*([A-Za-z_][A-Za-z0-9_$]*)\s*\(([^)]*)\)\s*(?:\(([^)]*)\))?$`)
var reHdrFunc = regexp.MustCompile(`^([A-Za-z_][A-Za-z0-9_$]*)\s*\(([^)]*)\)\s*(?:\(([^)]*)\))?$`)
var reHdrQuoted = regexp.MustCompile(`^"([^"]+)"\s*\(([^)]*)\)\s*(?:\(([^)]*)\))?$`)

func names(s string) []string {
	var out []string
	for _, n := range strings.Split(s, ",") {
		if n = strings.TrimSpace(n); n != "" {
			out = append(out, n)
		}
	}
	return out
}

func (sp *Specs) parseHeader(kind, rest, pkgPath, where string) *FuncSpec {
	fs := &FuncSpec{Loops: map[int]*LoopSpec{}, Pkg: pkgPath, Where: where, Short: rest}
	if m := reHdrQuoted.FindStringSubmatch(rest); m != nil {
		fs.Key = m[1]
		if kind == "invoke" {
			fs.Key = "invoke:" + m[1]
		}
		fs.Params, fs.Results = names(m[2]), names(m[3])
		fs.Trusted = pkgPath == ""
		if kind == "funcvalue" {
			// assumed behaviour of every value of a named function type (application callbacks): never proved
			fs.Key = "funcvalue:" + m[1]
			fs.Trusted = true
		}
		return fs
	}
	if kind == "funcvalue" {
		sp.errf(where, "funcvalue needs a quoted named function type")
		return nil
	}
	if kind == "invoke" {
		sp.errf(where, "invoke needs a quoted interface method")
		return nil
	}
	if pkgPath == "" {
		sp.errf(where, "unquoted function header outside a package: %q", rest)
		return nil
	}
	if m := reHdrMethod.FindStringSubmatch(rest); m != nil {
		if m[2] == "*" {
			fs.Key = fmt.Sprintf("(*%s.%s).%s", pkgPath, m[3], m[4])
		} else {
			fs.Key = fmt.Sprintf("(%s.%s).%s", pkgPath, m[3], m[4])
		}
		fs.Params = append([]string{m[1]}, names(m[5])...)
		if strings.Contains(m[4], "$") {
			// an anonymous function inside a method: the receiver is a captured variable, not a parameter
			fs.Params = names(m[5])
		}
		fs.Results = names(m[6])
		return fs
	}
	if m := reHdrFunc.FindStringSubmatch(rest); m != nil {
		fs.Key = pkgPath + "." + m[1]
		fs.Params, fs.Results = names(m[2]), names(m[3])
		return fs
	}
	sp.errf(where, "cannot parse function header %q", rest)
	return nil
}

// loadTrustedSpecs reads every *.spec under dir.
func (sp *Specs) loadTrustedSpecs(dir string) {
	var files []string
	filepath.Walk(dir, func(p string, info os.FileInfo, err error) error {
		if err == nil && !info.IsDir() && strings.HasSuffix(p, ".spec") {
			files = append(files, p)
		}
		return nil
	})
	sort.Strings(files)
	for _, f := range files {
		b, err := os.ReadFile(f)
		if err != nil {
			sp.errf(f, "%v", err)
			continue
		}
		// .spec files: every non-empty line that does not start with '#' is a spec line; allow optional //@ prefix
		var sb strings.Builder
		for _, l := range strings.Split(string(b), "\n") {
			t := strings.TrimSpace(l)
			if t == "" || strings.HasPrefix(t, "#") {
				sb.WriteString("\n")
				continue
			}
			t = stripHashComment(t)
			if strings.HasPrefix(t, "//@") || strings.HasPrefix(t, "// @") {
				sb.WriteString(t + "\n")
			} else {
				sb.WriteString("//@ " + t + "\n")
			}
		}
		sp.parseSpecText(f, sb.String(), "")
		if strings.Contains(f, string(filepath.Separator)+"generated"+string(filepath.Separator)) {
			// contracts derived mechanically from repository data (e.g. gen/metadata.json): verified, not assumed
			for _, fs := range sp.Funcs {
				if strings.HasPrefix(fs.Where, filepath.Base(f)+":") {
					fs.Trusted = false
				}
			}
		}
	}
}

// stripHashComment removes a trailing "# ..." (outside string literals) from a .spec line.
func stripHashComment(s string) string {
	inStr := false
	for i := 0; i < len(s); i++ {
		if s[i] == '"' && (i == 0 || s[i-1] != '\\') {
			inStr = !inStr
		}
		if !inStr && s[i] == '#' && i > 0 && (s[i-1] == ' ' || s[i-1] == '\t') {
			return strings.TrimSpace(s[:i])
		}
	}
	return s
}
