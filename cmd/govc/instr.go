package main

import (
	"fmt"
	"go/ast"
	"go/constant"
	"go/token"
	"go/types"
	"math/big"
	"strings"

	"golang.org/x/tools/go/ast/astutil"
	"golang.org/x/tools/go/ssa"
)

func constLit(eng *Engine, c *ssa.Const, ls string) string {
	switch c.Value.Kind() {
	case constant.Bool:
		if constant.BoolVal(c.Value) {
			return "true"
		}
		return "false"
	case constant.Int:
		if ls == "f64" || ls == "f32" {
			return fpLit(c.Value, ls)
		}
		return smtInt(c.Value.ExactString())
	case constant.String:
		return eng.lit(constant.StringVal(c.Value))
	case constant.Float:
		if ls == "int" {
			if i := constant.ToInt(c.Value); i.Kind() == constant.Int {
				return smtInt(i.ExactString())
			}
		}
		return fpLit(c.Value, ls)
	}
	return "0"
}

func smtInt(s string) string {
	if strings.HasPrefix(s, "-") {
		return "(- " + s[1:] + ")"
	}
	return s
}

func fpLit(v constant.Value, ls string) string {
	eb, sb := 11, 53
	if ls == "f32" {
		eb, sb = 8, 24
	}
	r := constant.ToFloat(v)
	// exact rational
	num, den := constant.Num(r), constant.Denom(r)
	var real string
	if num.Kind() == constant.Int && den.Kind() == constant.Int {
		ns, ds := num.ExactString(), den.ExactString()
		neg := strings.HasPrefix(ns, "-")
		if neg {
			ns = ns[1:]
		}
		real = fmt.Sprintf("(/ %s.0 %s.0)", ns, ds)
		if neg {
			real = "(- " + real + ")"
		}
	} else {
		f, _ := constant.Float64Val(r)
		bf := new(big.Float).SetFloat64(f)
		real = bf.Text('f', 40)
	}
	return fmt.Sprintf("((_ to_fp %d %d) RNE %s)", eb, sb, real)
}

// ---------------------------------------------------------------- source text for obligation names

func (t *tr) srcExpr(pos token.Pos, pick func(n ast.Node) ast.Expr) string {
	if pos == token.NoPos {
		return ""
	}
	f := t.eng.fileFor(pos)
	if f == nil {
		return ""
	}
	path, _ := astutil.PathEnclosingInterval(f, pos, pos)
	for _, n := range path {
		if e := pick(n); e != nil {
			s := types.ExprString(e)
			if len(s) > 70 {
				s = s[:67] + "..."
			}
			return s
		}
	}
	return ""
}

func (t *tr) nameAt(kind string, pos token.Pos, pick func(n ast.Node) ast.Expr) string {
	s := t.srcExpr(pos, pick)
	if s == "" {
		return "safe/" + kind
	}
	return "safe/" + kind + ":" + s
}

func pickSelX(n ast.Node) ast.Expr {
	if s, ok := n.(*ast.SelectorExpr); ok {
		return s.X
	}
	if s, ok := n.(*ast.StarExpr); ok {
		return s.X
	}
	return nil
}
func pickIndex(n ast.Node) ast.Expr {
	if s, ok := n.(*ast.IndexExpr); ok {
		return s
	}
	return nil
}
func pickSlice(n ast.Node) ast.Expr {
	if s, ok := n.(*ast.SliceExpr); ok {
		return s
	}
	return nil
}
func pickAssert(n ast.Node) ast.Expr {
	if s, ok := n.(*ast.TypeAssertExpr); ok {
		return s
	}
	return nil
}
func pickCallFun(n ast.Node) ast.Expr {
	if s, ok := n.(*ast.CallExpr); ok {
		return s.Fun
	}
	return nil
}
func pickCall(n ast.Node) ast.Expr {
	if s, ok := n.(*ast.CallExpr); ok {
		return s
	}
	return nil
}
func pickBinary(n ast.Node) ast.Expr {
	if s, ok := n.(*ast.BinaryExpr); ok {
		return s
	}
	return nil
}
func pickAnyExpr(n ast.Node) ast.Expr {
	if e, ok := n.(ast.Expr); ok {
		if _, isId := e.(*ast.Ident); isId {
			return nil
		}
		return e
	}
	return nil
}

// ---------------------------------------------------------------- memory access

func nonNilByConstruction(v ssa.Value) bool {
	switch v.(type) {
	case *ssa.Alloc, *ssa.Global, *ssa.FieldAddr, *ssa.IndexAddr, *ssa.FreeVar:
		return true
	}
	return false
}

func (t *tr) load(heaps map[string]string, addr string, ty types.Type) []string {
	lv := leaves(ty)
	out := make([]string, len(lv))
	for i, l := range lv {
		out[i] = selAt(t.H(heaps, "H_"+l), addr, i)
	}
	return out
}

func (t *tr) store(heaps map[string]string, addr string, ty types.Type, vals []string) {
	lv := leaves(ty)
	if len(vals) != len(lv) {
		panic(fmt.Sprintf("store arity %d vs %d for %s", len(vals), len(lv), ty))
	}
	// group by heap so that a [32]byte store is one new version; the object's cell array is updated cell by cell and
	// written back once (linear size)
	ta, tb, tc := locParts(addr)
	arrs := map[string]string{}
	var order []string
	for i, l := range lv {
		h := "H_" + l
		cur, ok := arrs[h]
		if !ok {
			cur = fmt.Sprintf("(select (select %s %s) %s)", t.H(heaps, h), ta, tb)
			order = append(order, h)
		}
		arrs[h] = fmt.Sprintf("(store %s %s %s)", cur, addConst(tc, i), vals[i])
	}
	for _, h := range order {
		hv := t.H(heaps, h)
		t.setHeap(heaps, h, fmt.Sprintf("(store %s %s (store (select %s %s) %s %s))", hv, ta, hv, ta, tb, arrs[h]))
	}
}

// freshVsHeap: a new object's reference occurs in no memory cell that exists when it is allocated.
func (t *tr) freshVsHeap(R, r string, heaps map[string]string) {
	hl, hs, hi := t.H(heaps, "H_loc"), t.H(heaps, "H_slice"), t.H(heaps, "H_iface")
	t.assume(R, fmt.Sprintf("(forall ((ty Int) (o Int) (c Int)) (! (distinct (lref (select (select (select %s ty) o) c)) %s) :pattern ((select (select (select %s ty) o) c))))", hl, r, hl))
	t.assume(R, fmt.Sprintf("(forall ((ty Int) (o Int) (c Int)) (! (distinct (sref (select (select (select %s ty) o) c)) %s) :pattern ((select (select (select %s ty) o) c))))", hs, r, hs))
	t.assume(R, fmt.Sprintf("(forall ((ty Int) (o Int) (c Int)) (! (distinct (lref (iloc (select (select (select %s ty) o) c))) %s) :pattern ((select (select (select %s ty) o) c))))", hi, r, hi))
}

func (t *tr) newRef(R string) string {
	r := t.fresh("alloc", "Int")
	t.assume("", fmt.Sprintf("(and (> %s 0) (not (existed %s)))", r, r))
	// newer than every object known so far
	t.assume("", fmt.Sprintf("(> (born %s) %d)", r, t.epoch))
	t.epoch++
	t.regPtr(r)
	return r
}

// notePtr records a pointer-ish value defined at this point: later allocations are distinct from it, and it is
// distinct from every local allocation that never escapes.
func (t *tr) notePtr(R, term string, ty types.Type) {
	ls := leafSort(ty)
	ref := refOf(ls, term)
	if ref == "" {
		return
	}
	t.regPtr(ref)
}

func (t *tr) loadedPtrFacts(R, term string, ty types.Type, src ssa.Value) {
	ls := leafSort(ty)
	ref := refOf(ls, term)
	if ref == "" {
		return
	}
	for _, a := range t.allocs {
		if t.escapes[a.v] {
			continue
		}
		if src != nil && t.taint[src][a.v] {
			continue
		}
		t.assume(R, fmt.Sprintf("(distinct %s %s)", ref, a.ref))
	}
	t.regPtr(ref)
}

// ---------------------------------------------------------------- block translation

func (t *tr) block(b *ssa.BasicBlock, heaps map[string]string) {
	R := t.reach[b]
	for _, ins := range b.Instrs {
		if t.stopped {
			return
		}
		switch x := ins.(type) {
		case *ssa.DebugRef:
		case *ssa.Phi:
			if k, isHdr := t.loopHdr[b]; isHdr && k >= 0 {
				continue // havoced in cutLoop
			}
			var terms [][]string
			var conds []string
			for i, p := range b.Preds {
				if _, done := t.reach[p]; !done {
					continue
				}
				terms = append(terms, t.vals(x.Edges[i]))
				conds = append(conds, t.edgeCond(p, b))
			}
			lv := leaves(x.Type())
			es := make([]string, len(lv))
			for c := range lv {
				e := terms[len(terms)-1][c]
				for i := len(terms) - 2; i >= 0; i-- {
					e = fmt.Sprintf("(ite %s %s %s)", conds[i], terms[i][c], e)
				}
				es[c] = e
			}
			t.defineMulti(x, lv, es)
		case *ssa.Alloc:
			elem := x.Type().(*types.Pointer).Elem()
			r := t.newRef(R)
			t.freshVsHeap(R, r, heaps)
			t.allocs = append(t.allocs, allocInfo{r, x})
			tag := t.eng.tag(elem)
			lv := leaves(elem)
			if len(lv) <= 128 {
				for i, ls := range lv {
					t.assume(R, fmt.Sprintf("(= (select (select (select %s %d) %s) %d) %s)", t.H(heaps, "H_"+ls), tag, r, i, zeroOf(ls)))
				}
			} else {
				for _, ls := range uniq(lv) {
					hh := t.H(heaps, "H_"+ls)
					t.assume(R, fmt.Sprintf("(forall ((j Int)) (! (= (select (select (select %s %d) %s) j) %s) :pattern ((select (select (select %s %d) %s) j))))", hh, tag, r, zeroOf(ls), hh, tag, r))
				}
			}
			t.ghostInit(R, heaps, elem, r)
			t.define(x, "Loc", fmt.Sprintf("(mkloc %d %s 0)", tag, r))
		case *ssa.FieldAddr:
			p := t.v(x.X)
			if !nonNilByConstruction(x.X) {
				t.oblige("safe", t.nameAt("nil", x.Pos(), pickSelX), R, fmt.Sprintf("(not (= (lref %s) 0))", p), x.Pos())
			}
			st := x.X.Type().Underlying().(*types.Pointer).Elem().Underlying().(*types.Struct)
			t.define(x, "Loc", t.fieldLoc(p, x.X.Type(), fieldOffset(st, x.Field)))
		case *ssa.Field:
			st := x.X.Type().Underlying().(*types.Struct)
			off := fieldOffset(st, x.Field)
			n := stride(st.Field(x.Field).Type())
			t.val[x] = t.vals(x.X)[off : off+n]
		case *ssa.IndexAddr:
			idx := t.v(x.Index)
			switch u := x.X.Type().Underlying().(type) {
			case *types.Pointer: // pointer to array
				arr := u.Elem().Underlying().(*types.Array)
				p := t.v(x.X)
				if !nonNilByConstruction(x.X) {
					t.oblige("safe", t.nameAt("nil", x.Pos(), pickIndex), R, fmt.Sprintf("(not (= (lref %s) 0))", p), x.Pos())
				}
				if c, ok := x.Index.(*ssa.Const); !ok || c.Int64() < 0 || c.Int64() >= arr.Len() {
					t.oblige("safe", t.nameAt("index", x.Pos(), pickIndex), R, fmt.Sprintf("(and (<= 0 %s) (< %s %d))", idx, idx, arr.Len()), x.Pos())
				}
				t.define(x, "Loc", locPlusTerm(p, mulConst(idx, stride(arr.Elem()))))
			case *types.Slice:
				s := t.v(x.X)
				t.oblige("safe", t.nameAt("index", x.Pos(), pickIndex), R, fmt.Sprintf("(and (<= 0 %s) (< %s (slen %s)))", idx, idx, s), x.Pos())
				t.define(x, "Loc", sliceElemLoc(s, idx, stride(u.Elem()), t.sliceTagConst(x.X.Type())))
			default:
				t.opaque(x, "IndexAddr on "+x.X.Type().String())
			}
		case *ssa.Index:
			switch u := x.X.Type().Underlying().(type) {
			case *types.Array:
				n := stride(u.Elem())
				if c, ok := x.Index.(*ssa.Const); ok {
					k := int(c.Int64())
					t.val[x] = t.vals(x.X)[k*n : (k+1)*n]
				} else {
					t.opaque(x, "Index of array value with variable index")
				}
			case *types.Basic: // string
				s, i := t.v(x.X), t.v(x.Index)
				t.oblige("safe", t.nameAt("index", x.Pos(), pickIndex), R, fmt.Sprintf("(and (<= 0 %s) (< %s (slen_s %s)))", i, i, s), x.Pos())
				t.define(x, "Int", fmt.Sprintf("(sat %s %s)", s, i))
			default:
				t.opaque(x, "Index on "+x.X.Type().String())
			}
		case *ssa.UnOp:
			t.unop(x, R, heaps)
		case *ssa.BinOp:
			t.binop(x, R)
		case *ssa.Store:
			p := t.v(x.Addr)
			if !nonNilByConstruction(x.Addr) {
				t.oblige("safe", t.nameAt("nil", x.Pos(), pickAnyExpr), R, fmt.Sprintf("(not (= (lref %s) 0))", p), x.Pos())
			}
			t.store(heaps, p, x.Val.Type(), t.vals(x.Val))
			if t.own != nil && t.parent == nil && len(t.own.GhostSets) > 0 {
				if fn := storedFieldName(x); fn != "" {
					for _, gs := range t.own.GhostSets {
						if gs.Store == fn && gs.N == t.storeOrd[ins] {
							idx := 0
							for k, bi := range b.Instrs {
								if bi == ins {
									idx = k
								}
							}
							t.applyGhostSet(gs, t.pointEnv(b, idx+1), R, heaps)
						}
					}
				}
			}
		case *ssa.Slice:
			t.slice(x, R)
		case *ssa.MakeSlice:
			r := t.newRef(R)
			t.freshVsHeap(R, r, heaps)
			t.allocs = append(t.allocs, allocInfo{r, x})
			ln, cp := t.v(x.Len), t.v(x.Cap)
			t.oblige("safe", t.nameAt("makeslice", x.Pos(), pickCall), R, fmt.Sprintf("(and (<= 0 %s) (<= %s %s) (<= %s 144115188075855872))", ln, ln, cp, cp), x.Pos())
			el := x.Type().Underlying().(*types.Slice).Elem()
			tag := t.eng.sliceTag(x.Type())
			for _, ls := range uniq(leaves(el)) {
				hh := t.H(heaps, "H_"+ls)
				t.assume(R, fmt.Sprintf("(forall ((j Int)) (! (= (select (select (select %s %d) %s) j) %s) :pattern ((select (select (select %s %d) %s) j))))", hh, tag, r, zeroOf(ls), hh, tag, r))
			}
			t.define(x, "Slice", fmt.Sprintf("(mkslice %d %s 0 %s %s)", tag, r, ln, cp))
		case *ssa.MakeMap:
			r := t.newRef(R)
			t.allocs = append(t.allocs, allocInfo{r, x})
			mt := x.Type().Underlying().(*types.Map)
			ks := leafSort(mt.Key())
			if ks != "" {
				t.assume(R, fmt.Sprintf("(= (select %s %s) ((as const (Array %s Bool)) false))", t.H(heaps, "MD_"+ks), r, smtSort(ks)))
			}
			t.assume(R, fmt.Sprintf("(= (select %s %s) 0)", t.H(heaps, "ML"), r))
			t.define(x, "Int", r)
		case *ssa.MakeChan:
			r := t.newRef(R)
			t.define(x, "Int", r)
		case *ssa.MakeInterface:
			t.define(x, "Iface", t.mkIface(x.X))
		case *ssa.ChangeInterface:
			t.val[x] = t.vals(x.X)
		case *ssa.ChangeType:
			t.val[x] = t.vals(x.X)
		case *ssa.Convert:
			t.convert(x, R, heaps)
		case *ssa.SliceToArrayPointer:
			s := t.v(x.X)
			n := x.Type().Underlying().(*types.Pointer).Elem().Underlying().(*types.Array).Len()
			t.oblige("safe", t.nameAt("slice2array", x.Pos(), pickCall), R, fmt.Sprintf("(>= (slen %s) %d)", s, n), x.Pos())
			t.define(x, "Loc", fmt.Sprintf("(mkloc (styp %s) (sref %s) (soff %s))", s, s, s))
		case *ssa.TypeAssert:
			t.typeAssert(x, R)
		case *ssa.Extract:
			tup := x.Tuple.Type().(*types.Tuple)
			off := 0
			for i := 0; i < x.Index; i++ {
				off += stride(tup.At(i).Type())
			}
			n := stride(tup.At(x.Index).Type())
			t.val[x] = t.vals(x.Tuple)[off : off+n]
		case *ssa.Call:
			t.call(x, x.Common(), R, heaps, false)
			if t.own != nil && t.parent == nil && len(t.own.GhostSets) > 0 {
				if _, isB := x.Common().Value.(*ssa.Builtin); !isB {
					name := t.calleeName(x.Common())
					for _, gs := range t.own.GhostSets {
						if gs.Callee == "" || !gs.After || gs.N != t.callOrd[ins] || !(name == gs.Callee || strings.HasSuffix(name, "."+gs.Callee) || strings.HasSuffix(name, ")."+gs.Callee)) {
							continue
						}
						idx := 0
						for k, bi := range b.Instrs {
							if bi == ins {
								idx = k
							}
						}
						t.applyGhostSet(gs, t.pointEnv(b, idx+1), R, heaps)
					}
				}
			}
		case *ssa.Defer:
			name := t.deferFlagName(x)
			t.setHeap(heaps, name, "true")
			rec := &deferRec{call: x, flag: name}
			t.defers = append(t.defers, rec)
		case *ssa.RunDefers:
			for i := len(t.defers) - 1; i >= 0; i-- {
				d := t.defers[i]
				flag := t.H(heaps, d.flag)
				if flag == t.heapV0(d.flag) {
					continue // never set on any path to here
				}
				guard := fmt.Sprintf("(and %s %s)", R, flag)
				before := copyMap(heaps)
				t.call(d.call, d.call.Common(), guard, heaps, true)
				// effects only if the defer statement was executed
				for h, nv := range heaps {
					ov := t.H(before, h)
					if ov != nv {
						t.setHeap(heaps, h, fmt.Sprintf("(ite %s %s %s)", flag, nv, ov))
					}
				}
			}
		case *ssa.MakeClosure:
			fnv := x.Fn.(*ssa.Function)
			r := t.newRef(R)
			// environment object: one Loc cell per binding
			for i, bnd := range x.Bindings {
				_ = i
				_ = bnd
			}
			t.define(x, "Int", t.funcSym(fnv))
			_ = r
		case *ssa.MapUpdate:
			t.mapUpdate(x, R, heaps)
		case *ssa.Lookup:
			t.lookup(x, R, heaps)
		case *ssa.Range:
			t.val[x] = []string{"0"}
		case *ssa.Next:
			t.next(x, R, heaps)
		case *ssa.If, *ssa.Jump:
			for _, s := range b.Succs {
				if s.Dominates(b) {
					t.backEdge(b, s, heaps, ins.Pos())
				}
			}
		case *ssa.Return:
			t.ret(x, b, R, heaps)
		case *ssa.Panic:
			t.oblige("safe", t.nameAt("panic", x.Pos(), pickCall), R, "false", x.Pos())
		case *ssa.Go:
			// partial verification: everything from the first go statement on is outside the subset; the obligations
			// generated so far (the prefix of the function) are kept, nothing after this point is claimed
			t.stopped = true
			t.abstractf("function verified only up to its first go statement (%s)", t.posStr(ins.Pos()))
			return
		case *ssa.Send, *ssa.Select:
			t.fatalf("unsupported: %T in %s (goroutines/channels are outside the subset)", ins, t.fnKey)
		default:
			if v, ok := ins.(ssa.Value); ok {
				t.opaque(v, fmt.Sprintf("unsupported instruction %T", ins))
			} else {
				t.fatalf("unsupported: %T", ins)
			}
		}
	}
}

func mulConst(idx string, k int) string {
	if k == 1 {
		return idx
	}
	return fmt.Sprintf("(* %s %d)", idx, k)
}

func (t *tr) deferFlagName(d *ssa.Defer) string {
	// ordinal of the defer in the function
	n := 0
	for _, b := range t.fn.Blocks {
		for _, ins := range b.Instrs {
			if dd, ok := ins.(*ssa.Defer); ok {
				if dd == d {
					return fmt.Sprintf("D_%d", n)
				}
				n++
			}
		}
	}
	return "D_x"
}

// ghostInit: ghost state tied to an allocation type (the zero bytes.Buffer is empty, a new mutex is unlocked ...)
func (t *tr) ghostInit(R string, heaps map[string]string, elem types.Type, ref string) {
	name := types.TypeString(elem, nil)
	switch name {
	case "bytes.Buffer":
		if _, ok := t.eng.specs.Ghosts["stream"]; ok {
			t.assume(R, fmt.Sprintf("(= (select %s %s) seq_empty)", t.H(heaps, "G_stream"), ref))
		}
	}
}

func (t *tr) mkIface(x ssa.Value) string {
	ty := x.Type()
	if _, isIface := ty.Underlying().(*types.Interface); isIface {
		return t.v(x)
	}
	ls := leafSort(ty)
	tag := t.eng.tag(ty)
	comp := map[string]string{"int": "0", "bool": "false", "str": "str_empty", "loc": "nullloc", "slice": "nullslice", "f64": "f64zero"}
	switch ls {
	case "int", "func", "map", "chan":
		comp["int"] = t.v(x)
	case "bool", "str", "loc", "slice", "f64":
		comp[ls] = t.v(x)
	case "f32":
		comp["f64"] = fmt.Sprintf("((_ to_fp 11 53) RNE %s)", t.v(x))
	default:
		// composite value boxed: payload not modelled (dynamic type is)
		t.abstractf("boxed composite %s: payload not modelled", ty)
	}
	return fmt.Sprintf("(mkiface %d %s %s %s %s %s %s)", tag, comp["int"], comp["bool"], comp["str"], comp["loc"], comp["slice"], comp["f64"])
}

func ifaceComp(ls, term string) string {
	switch ls {
	case "int", "func", "map", "chan":
		return "(iint " + term + ")"
	case "bool":
		return "(ibool " + term + ")"
	case "str":
		return "(istr " + term + ")"
	case "loc":
		return "(iloc " + term + ")"
	case "slice":
		return "(islice " + term + ")"
	case "f64":
		return "(ifp " + term + ")"
	case "f32":
		return "((_ to_fp 8 24) RNE (ifp " + term + "))"
	}
	return ""
}

func (t *tr) typeAssert(x *ssa.TypeAssert, R string) {
	v := t.v(x.X)
	if _, isIface := x.AssertedType.Underlying().(*types.Interface); isIface {
		// interface-to-interface: whether the dynamic type implements the asserted interface is decided from the
		// tag registry where the dynamic type is known; otherwise the outcome is unconstrained (comma-ok) or trusted.
		impl := t.implementsTerm(v, x.AssertedType)
		if x.CommaOk {
			ok := t.fresh("taok", "Bool")
			t.assume("", fmt.Sprintf("(=> %s (not (= (ityp %s) 0)))", ok, v))
			if impl != "" {
				t.assume("", fmt.Sprintf("(= %s %s)", ok, impl))
			}
			n := t.fresh("taval", "Iface")
			t.assume("", fmt.Sprintf("(= %s (ite %s %s niliface))", n, ok, v))
			t.val[x] = []string{n, ok}
		} else {
			goal := fmt.Sprintf("(not (= (ityp %s) 0))", v)
			if impl != "" {
				goal = impl
			}
			t.oblige("safe", t.nameAt("typeassert", x.Pos(), pickAssert), R, goal, x.Pos())
			t.val[x] = []string{v}
		}
		return
	}
	tag := t.eng.tag(x.AssertedType)
	lv := leaves(x.AssertedType)
	okT := fmt.Sprintf("(= (ityp %s) %d)", v, tag)
	var payload []string
	if len(lv) == 1 {
		payload = []string{ifaceComp(lv[0], v)}
	} else {
		for _, l := range lv {
			payload = append(payload, t.fresh("unboxed", smtSort(l)))
		}
		t.abstractf("type assertion to composite %s: payload not modelled", x.AssertedType)
	}
	if x.CommaOk {
		var es []string
		for i, l := range lv {
			es = append(es, fmt.Sprintf("(ite %s %s %s)", okT, payload[i], zeroOf(l)))
		}
		ns := t.defineMulti(x, append(append([]string{}, lv...), "bool"), append(es, okT))
		if len(lv) == 1 {
			t.typeFacts("true", ns[0], x.AssertedType)
		}
	} else {
		t.oblige("safe", t.nameAt("typeassert", x.Pos(), pickAssert), R, okT, x.Pos())
		ns := t.defineMulti(x, lv, payload)
		if len(lv) == 1 {
			t.typeFacts(R, ns[0], x.AssertedType)
		}
	}
}

// implementsTerm: a term that is true iff the dynamic type of v implements iface; "" when unknown.
// Only concrete types that already have a tag can be enumerated; for a closed world we would need all types, so the
// result is used for obligations only when the dynamic type is pinned by the context.
func (t *tr) implementsTerm(v string, iface types.Type) string {
	return ""
}

func (t *tr) unop(x *ssa.UnOp, R string, heaps map[string]string) {
	switch x.Op {
	case token.MUL: // load
		p := t.v(x.X)
		if !nonNilByConstruction(x.X) {
			t.oblige("safe", t.nameAt("nil", x.Pos(), pickSelX), R, fmt.Sprintf("(not (= (lref %s) 0))", p), x.Pos())
		}
		lv := leaves(x.Type())
		if len(lv) == 0 {
			t.val[x] = nil
			return
		}
		terms := t.load(heaps, p, x.Type())
		ns := t.defineMulti(x, lv, terms)
		if len(lv) == 1 {
			t.typeFacts(R, ns[0], x.Type())
			t.loadedPtrFacts(R, ns[0], x.Type(), x.X)
			if ref := refOf(lv[0], ns[0]); ref != "" && t.H(heaps, "H_"+lv[0]) == t.heapV0("H_"+lv[0]) {
				// the entry heap is closed under reachability: what an object that existed at entry refers to existed at entry
				// (not so for the fields of an object allocated since - e.g. by a pure callee - which live in the same version)
				if _, isGlobal := x.X.(*ssa.Global); isGlobal {
					t.assume("", fmt.Sprintf("(existed %s)", ref))
				} else {
					t.assume("", fmt.Sprintf("(=> (existed (lref %s)) (existed %s))", p, ref))
				}
			}
			if g, isGlobal := x.X.(*ssa.Global); isGlobal {
				t.globalFacts(g, ns[0], lv[0])
			}
		} else {
			t.compositeTypeFacts(R, ns, x.Type())
		}
	case token.NOT:
		t.define(x, "Bool", "(not "+t.v(x.X)+")")
	case token.SUB:
		ls := leafSort(x.Type())
		if ls == "f64" || ls == "f32" {
			t.define(x, smtSort(ls), "(fp.neg "+t.v(x.X)+")")
			return
		}
		t.define(x, "Int", wrapAddSub("(- "+t.v(x.X)+")", x.Type()))
	case token.XOR:
		// ^x = -x-1 (signed) / max-x (unsigned)
		if isUnsigned(x.Type()) {
			_, hi, _ := intRange(x.Type())
			t.define(x, "Int", fmt.Sprintf("(- %s %s)", hi, t.v(x.X)))
		} else {
			t.define(x, "Int", fmt.Sprintf("(- (- %s) 1)", t.v(x.X)))
		}
	case token.ARROW:
		t.fatalf("unsupported: channel receive")
		t.opaque(x, "channel receive")
	default:
		t.opaque(x, "unop "+x.Op.String())
	}
}

// globalFacts: sentinel values and global invariants for package-level variables.
func (t *tr) globalFacts(g *ssa.Global, term, ls string) {
	key := g.Pkg.Pkg.Path() + "." + g.Name()
	if t.eng.globalsWritten[key] {
		return
	}
	c := t.globalConst(key, ls, isSentinelError(g))
	t.assume("", fmt.Sprintf("(= %s %s)", term, c))
}

// globalConst: the fixed value of a package-level variable that is never reassigned outside init.
func (t *tr) globalConst(key, ls string, sentinel bool) string {
	c := "gval_" + sanitize(key)
	if _, done := t.heapSorts["@"+c]; !done {
		t.heapSorts["@"+c] = "x"
		fmt.Fprintf(&t.decls, "(declare-const %s %s)\n", c, smtSort(ls))
		if t.eng.specs.Globals[key] == "nonnil" || sentinel {
			switch ls {
			case "iface":
				fmt.Fprintf(&t.decls, "(assert (not (= %s niliface)))\n", c)
			case "loc":
				fmt.Fprintf(&t.decls, "(assert (> (lref %s) 0))\n", c)
			case "slice":
				fmt.Fprintf(&t.decls, "(assert (> (sref %s) 0))\n", c)
			}
		}
		if id, ok := t.eng.sentinelID(key); ok && ls == "iface" {
			fmt.Fprintf(&t.decls, "(assert (= (iint %s) %d))\n(assert (= (ityp %s) %d))\n", c, id, c, t.eng.tag(sentinelType))
		}
	}
	return c
}

var sentinelType = types.NewNamed(types.NewTypeName(token.NoPos, nil, "sentinel-error", nil), types.Typ[types.Int], nil)

func isSentinelError(g *ssa.Global) bool {
	pt, ok := g.Type().(*types.Pointer)
	if !ok {
		return false
	}
	if n, ok := pt.Elem().(*types.Named); ok && n.Obj().Name() == "error" && n.Obj().Pkg() == nil {
		p := g.Pkg.Pkg.Path()
		return !strings.HasPrefix(p, "github.com/brutella/hc") || strings.HasPrefix(g.Name(), "err") || strings.HasPrefix(g.Name(), "Err")
	}
	return false
}

// sentinelID gives distinct identities to well-known error variables so that io.EOF != io.ErrUnexpectedEOF.
func (e *Engine) sentinelID(key string) (int, bool) {
	switch key {
	case "io.EOF":
		return 1, true
	case "io.ErrUnexpectedEOF":
		return 2, true
	case "io.ErrShortWrite":
		return 3, true
	case "io.ErrShortBuffer":
		return 4, true
	case "io.ErrNoProgress":
		return 5, true
	}
	return 0, false
}

func fpOp(op token.Token) string {
	switch op {
	case token.ADD:
		return "fp.add RNE"
	case token.SUB:
		return "fp.sub RNE"
	case token.MUL:
		return "fp.mul RNE"
	case token.QUO:
		return "fp.div RNE"
	}
	return ""
}

func (t *tr) binop(x *ssa.BinOp, R string) {
	ls := leafSort(x.X.Type())
	if ls == "" {
		// comparison of composite values (arrays/structs): component-wise
		if x.Op == token.EQL || x.Op == token.NEQ {
			as, bs := t.vals(x.X), t.vals(x.Y)
			var eqs []string
			for i := range as {
				eqs = append(eqs, fmt.Sprintf("(= %s %s)", as[i], bs[i]))
			}
			e := "true"
			if len(eqs) > 0 {
				e = "(and " + strings.Join(eqs, " ") + ")"
			}
			if x.Op == token.NEQ {
				e = "(not " + e + ")"
			}
			t.define(x, "Bool", e)
			return
		}
		t.opaque(x, "binop on composite")
		return
	}
	a, b := t.v(x.X), t.v(x.Y)
	if ls == "f64" || ls == "f32" {
		switch x.Op {
		case token.ADD, token.SUB, token.MUL, token.QUO:
			t.define(x, smtSort(ls), fmt.Sprintf("(%s %s %s)", fpOp(x.Op), a, b))
		case token.EQL:
			t.define(x, "Bool", fmt.Sprintf("(fp.eq %s %s)", a, b))
		case token.NEQ:
			t.define(x, "Bool", fmt.Sprintf("(not (fp.eq %s %s))", a, b))
		case token.LSS:
			t.define(x, "Bool", fmt.Sprintf("(fp.lt %s %s)", a, b))
		case token.LEQ:
			t.define(x, "Bool", fmt.Sprintf("(fp.leq %s %s)", a, b))
		case token.GTR:
			t.define(x, "Bool", fmt.Sprintf("(fp.gt %s %s)", a, b))
		case token.GEQ:
			t.define(x, "Bool", fmt.Sprintf("(fp.geq %s %s)", a, b))
		default:
			t.opaque(x, "float binop "+x.Op.String())
		}
		return
	}
	switch x.Op {
	case token.ADD, token.SUB, token.MUL:
		if ls == "str" {
			t.define(x, "GStr", fmt.Sprintf("(str_cat %s %s)", a, b))
			return
		}
		op := map[token.Token]string{token.ADD: "+", token.SUB: "-", token.MUL: "*"}[x.Op]
		e := fmt.Sprintf("(%s %s %s)", op, a, b)
		if x.Op == token.MUL {
			t.define(x, "Int", wrapMod(e, x.Type()))
		} else if x.Op == token.ADD && t.assumesNoWrap() && isUnsigned(x.Type()) {
			// stated assumption of this function's contract: the counter does not wrap around
			n := t.define(x, "Int", e)
			_, hi, _ := intRange(x.Type())
			t.assume(R, fmt.Sprintf("(<= %s %s)", n, hi))
			t.abstractf("ASSUMED: unsigned addition does not wrap (assume nowrap; includes helper bodies translated in place)")
		} else {
			t.define(x, "Int", wrapAddSub(e, x.Type()))
		}
	case token.QUO, token.REM:
		t.oblige("safe", t.nameAt("divzero", x.Pos(), pickBinary), R, fmt.Sprintf("(not (= %s 0))", b), x.Pos())
		// Go truncates toward zero; SMT div/mod are floored/Euclidean
		var e string
		if x.Op == token.QUO {
			e = fmt.Sprintf("(ite (>= %s 0) (div %s %s) (- (div (- %s) %s)))", a, a, b, a, b)
			if !isUnsigned(x.Type()) {
				e = wrapAddSub(e, x.Type()) // MinInt / -1
			}
		} else {
			e = fmt.Sprintf("(ite (>= %s 0) (mod %s %s) (- (mod (- %s) %s)))", a, a, b, a, b)
		}
		if isUnsigned(x.Type()) {
			if x.Op == token.QUO {
				e = fmt.Sprintf("(div %s %s)", a, b)
			} else {
				e = fmt.Sprintf("(mod %s %s)", a, b)
			}
		}
		t.define(x, "Int", e)
	case token.SHL, token.SHR, token.AND, token.OR, token.XOR, token.AND_NOT:
		t.bitop(x, a, b)
	case token.EQL, token.NEQ:
		var e string
		if ls == "iface" {
			// comparing two interface values with identical uncomparable dynamic type panics
			if !isNilConst(x.X) && !isNilConst(x.Y) {
				t.oblige("safe", t.nameAt("ifacecmp", x.Pos(), pickBinary), R, fmt.Sprintf("(not (and (= (ityp %s) (ityp %s)) (uncomparable (ityp %s))))", a, b, a), x.Pos())
				e = fmt.Sprintf("(iface_eq %s %s)", a, b)
			} else {
				e = fmt.Sprintf("(= %s %s)", a, b)
			}
		} else {
			e = fmt.Sprintf("(= %s %s)", a, b)
		}
		if x.Op == token.NEQ {
			e = "(not " + e + ")"
		}
		t.define(x, "Bool", e)
	case token.LSS, token.LEQ, token.GTR, token.GEQ:
		op := map[token.Token]string{token.LSS: "<", token.LEQ: "<=", token.GTR: ">", token.GEQ: ">="}[x.Op]
		if ls == "str" {
			t.opaque(x, "string ordering")
			return
		}
		t.define(x, "Bool", fmt.Sprintf("(%s %s %s)", op, a, b))
	default:
		t.opaque(x, "binop "+x.Op.String())
	}
}

func isNilConst(v ssa.Value) bool {
	c, ok := v.(*ssa.Const)
	return ok && c.Value == nil
}

func constInt64(v ssa.Value) (int64, bool) {
	c, ok := v.(*ssa.Const)
	if !ok || c.Value == nil || c.Value.Kind() != constant.Int {
		return 0, false
	}
	if i, exact := constant.Int64Val(c.Value); exact {
		return i, true
	}
	if u, exact := constant.Uint64Val(c.Value); exact && u <= 1<<63-1 {
		return int64(u), true
	}
	return 0, false
}

// bitop: shifts by constants and masks with 2^k-1 are arithmetic; `|` of bit-disjoint operands is `+`
// (DESIGN 2.4). Everything else is an uninterpreted function with range facts.
func (t *tr) bitop(x *ssa.BinOp, a, b string) {
	ty := x.Type()
	w := bitWidth(ty)
	switch x.Op {
	case token.SHL:
		if k, ok := constInt64(x.Y); ok && k >= 0 && k < 64 {
			if int(k) >= w {
				t.define(x, "Int", "0")
				return
			}
			t.define(x, "Int", wrapMod(fmt.Sprintf("(* %s %s)", a, pow2(int(k))), ty))
			return
		}
	case token.SHR:
		if k, ok := constInt64(x.Y); ok && k >= 0 && k < 64 {
			// arithmetic shift for signed = floor division
			t.define(x, "Int", fmt.Sprintf("(div %s %s)", a, pow2(int(k))))
			return
		}
	case token.AND:
		if k, ok := constInt64(x.Y); ok && k >= 0 && (k&(k+1)) == 0 {
			t.define(x, "Int", fmt.Sprintf("(mod %s %d)", a, k+1))
			return
		}
		if k, ok := constInt64(x.X); ok && k >= 0 && (k&(k+1)) == 0 {
			t.define(x, "Int", fmt.Sprintf("(mod %s %d)", b, k+1))
			return
		}
	case token.OR:
		// x | 0
		if k, ok := constInt64(x.Y); ok && k == 0 {
			t.define(x, "Int", a)
			return
		}
		if k, ok := constInt64(x.X); ok && k == 0 {
			t.define(x, "Int", b)
			return
		}
		// (p << k) | q  with 0 <= q < 2^k  ==  p*2^k + q   (checked by the solver through bor's axioms)
	}
	fn := map[token.Token]string{token.SHL: "bshl", token.SHR: "bshr", token.AND: "band", token.OR: "bor", token.XOR: "bxor", token.AND_NOT: "bandnot"}[x.Op]
	n := t.define(x, "Int", fmt.Sprintf("(%s %s %s)", fn, a, b))
	t.typeFacts("true", n, ty)
	t.abstractf("bit operator %s is uninterpreted (with disjoint-or / mask axioms)", x.Op)
}

func (t *tr) slice(x *ssa.Slice, R string) {
	var lo, hi string
	if x.Low != nil {
		lo = t.v(x.Low)
	} else {
		lo = "0"
	}
	switch u := x.X.Type().Underlying().(type) {
	case *types.Slice:
		s := t.v(x.X)
		if x.High != nil {
			hi = t.v(x.High)
		} else {
			hi = "(slen " + s + ")"
		}
		mx := "(scap " + s + ")"
		if x.Max != nil {
			mx = t.v(x.Max)
			t.oblige("safe", t.nameAt("slice", x.Pos(), pickSlice), R, fmt.Sprintf("(and (<= 0 %s) (<= %s %s) (<= %s %s) (<= %s (scap %s)))", lo, lo, hi, hi, mx, mx, s), x.Pos())
		} else {
			t.oblige("safe", t.nameAt("slice", x.Pos(), pickSlice), R, fmt.Sprintf("(and (<= 0 %s) (<= %s %s) (<= %s (scap %s)))", lo, lo, hi, hi, s), x.Pos())
		}
		// a nil slice stays nil when sliced [0:0]
		t.define(x, "Slice", fmt.Sprintf("(mkslice (styp %s) (sref %s) (+ (soff %s) %s) (- %s %s) (- %s %s))", s, s, s, mulConst(lo, stride(u.Elem())), hi, lo, mx, lo))
	case *types.Pointer: // *[N]T
		arr := u.Elem().Underlying().(*types.Array)
		p := t.v(x.X)
		if !nonNilByConstruction(x.X) {
			t.oblige("safe", t.nameAt("nil", x.Pos(), pickSlice), R, fmt.Sprintf("(not (= (lref %s) 0))", p), x.Pos())
		}
		if x.High != nil {
			hi = t.v(x.High)
		} else {
			hi = fmt.Sprint(arr.Len())
		}
		_, loConst := constInt64OrNil(x.Low)
		_, hiConst := constInt64OrNil(x.High)
		if !(loConst && hiConst) {
			t.oblige("safe", t.nameAt("slice", x.Pos(), pickSlice), R, fmt.Sprintf("(and (<= 0 %s) (<= %s %s) (<= %s %d))", lo, lo, hi, hi, arr.Len()), x.Pos())
		}
		t.define(x, "Slice", fmt.Sprintf("(mkslice (ltyp %s) (lref %s) (+ (lcell %s) %s) (- %s %s) (- %d %s))", p, p, p, mulConst(lo, stride(arr.Elem())), hi, lo, arr.Len(), lo))
	case *types.Basic: // string
		s := t.v(x.X)
		if x.High != nil {
			hi = t.v(x.High)
		} else {
			hi = "(slen_s " + s + ")"
		}
		t.oblige("safe", t.nameAt("slice", x.Pos(), pickSlice), R, fmt.Sprintf("(and (<= 0 %s) (<= %s %s) (<= %s (slen_s %s)))", lo, lo, hi, hi, s), x.Pos())
		t.define(x, "GStr", fmt.Sprintf("(str_sub %s %s %s)", s, lo, hi))
	}
}

func constInt64OrNil(v ssa.Value) (int64, bool) {
	if v == nil {
		return 0, true
	}
	return constInt64(v)
}

func (t *tr) convert(x *ssa.Convert, R string, heaps map[string]string) {
	src, dst := x.X.Type(), x.Type()
	sl, dl := leafSort(src), leafSort(dst)
	switch {
	case sl == "int" && dl == "int":
		lo, hi, _ := intRange(dst)
		slo, shi, _ := intRange(src)
		if rangeWithin(slo, shi, lo, hi) {
			t.val[x] = t.vals(x.X)
		} else {
			t.define(x, "Int", wrapMod(t.v(x.X), dst))
		}
	case sl == "str" && dl == "slice":
		// []byte(s): fresh object whose cells are the string's bytes
		r := t.newRef(R)
		t.freshVsHeap(R, r, heaps)
		t.allocs = append(t.allocs, allocInfo{r, x})
		s := t.v(x.X)
		tag := t.eng.sliceTag(dst)
		hh := t.H(heaps, "H_int")
		t.assume(R, fmt.Sprintf("(forall ((j Int)) (! (=> (and (<= 0 j) (< j (slen_s %s))) (= (select (select (select %s %d) %s) j) (sat %s j))) :pattern ((select (select (select %s %d) %s) j))))", s, hh, tag, r, s, hh, tag, r))
		t.assume(R, fmt.Sprintf("(= (seqof (select (select %s %d) %s) 0 (slen_s %s)) (seq_of_str %s))", hh, tag, r, s, s))
		t.define(x, "Slice", fmt.Sprintf("(mkslice %d %s 0 (slen_s %s) (slen_s %s))", tag, r, s, s))
	case sl == "slice" && dl == "str":
		b := t.v(x.X)
		t.define(x, "GStr", fmt.Sprintf("(str_of_seq (seqof (select (select %s (styp %s)) (sref %s)) (soff %s) (slen %s)))", t.H(heaps, "H_int"), b, b, b, b))
	case sl == "int" && dl == "str":
		t.define(x, "GStr", fmt.Sprintf("(str_of_rune %s)", t.v(x.X)))
	case sl == "int" && (dl == "f64" || dl == "f32"):
		eb, sb := 11, 53
		if dl == "f32" {
			eb, sb = 8, 24
		}
		t.define(x, smtSort(dl), fmt.Sprintf("((_ to_fp %d %d) RNE (to_real %s))", eb, sb, t.v(x.X)))
	case sl == "f64" && dl == "f32":
		t.define(x, "F32", fmt.Sprintf("((_ to_fp 8 24) RNE %s)", t.v(x.X)))
	case sl == "f32" && dl == "f64":
		t.define(x, "F64", fmt.Sprintf("((_ to_fp 11 53) RNE %s)", t.v(x.X)))
	case sl == dl && sl != "":
		t.val[x] = t.vals(x.X)
	default:
		t.opaque(x, "convert "+src.String()+"->"+dst.String())
	}
}

func rangeWithin(slo, shi, lo, hi string) bool {
	p := func(s string) *big.Int {
		s = strings.TrimSuffix(strings.TrimPrefix(s, "(- "), ")")
		v, _ := new(big.Int).SetString(s, 10)
		return v
	}
	neg := func(s string) bool { return strings.HasPrefix(s, "(- ") }
	a, b, c, d := p(slo), p(shi), p(lo), p(hi)
	if neg(slo) {
		a.Neg(a)
	}
	if neg(lo) {
		c.Neg(c)
	}
	return a.Cmp(c) >= 0 && b.Cmp(d) <= 0
}

// ---------------------------------------------------------------- maps (basic)

func mapSorts(mt *types.Map) (string, string) {
	return leafSort(mt.Key()), leafSort(mt.Elem())
}

func (t *tr) mapUpdate(x *ssa.MapUpdate, R string, heaps map[string]string) {
	mt := x.Map.Type().Underlying().(*types.Map)
	ks, vs := mapSorts(mt)
	m := t.v(x.Map)
	t.oblige("safe", t.nameAt("nilmap", x.Pos(), pickIndex), R, fmt.Sprintf("(not (= %s 0))", m), x.Pos())
	if ks == "" {
		t.abstractf("map with composite key: update not modelled")
		return
	}
	k := t.v(x.Key)
	if ks == "iface" {
		t.oblige("safe", t.nameAt("mapkey", x.Pos(), pickIndex), R, fmt.Sprintf("(not (uncomparable (ityp %s)))", k), x.Pos())
	}
	md := t.H(heaps, "MD_"+ks)
	ml := t.H(heaps, "ML")
	t.setHeap(heaps, "ML", fmt.Sprintf("(store %s %s (ite (select (select %s %s) %s) (select %s %s) (+ (select %s %s) 1)))", ml, m, md, m, k, ml, m, ml, m))
	t.setHeap(heaps, "MD_"+ks, fmt.Sprintf("(store %s %s (store (select %s %s) %s true))", md, m, md, m, k))
	if vs != "" {
		mv := t.H(heaps, "MV_"+ks+"_"+vs)
		t.setHeap(heaps, "MV_"+ks+"_"+vs, fmt.Sprintf("(store %s %s (store (select %s %s) %s %s))", mv, m, mv, m, k, t.v(x.Value)))
	} else {
		t.abstractf("map with composite element: stored value not modelled")
	}
}

func (t *tr) lookup(x *ssa.Lookup, R string, heaps map[string]string) {
	mt, isMap := x.X.Type().Underlying().(*types.Map)
	if !isMap { // string index
		s, i := t.v(x.X), t.v(x.Index)
		t.oblige("safe", t.nameAt("index", x.Pos(), pickIndex), R, fmt.Sprintf("(and (<= 0 %s) (< %s (slen_s %s)))", i, i, s), x.Pos())
		t.define(x, "Int", fmt.Sprintf("(sat %s %s)", s, i))
		return
	}
	ks, vs := mapSorts(mt)
	if ks == "" || vs == "" {
		t.opaque(x, "lookup in map with composite key/element")
		return
	}
	m, k := t.v(x.X), t.v(x.Index)
	dom := fmt.Sprintf("(and (not (= %s 0)) (select (select %s %s) %s))", m, t.H(heaps, "MD_"+ks), m, k)
	val := fmt.Sprintf("(ite %s (select (select %s %s) %s) %s)", dom, t.H(heaps, "MV_"+ks+"_"+vs), m, k, zeroOf(vs))
	if x.CommaOk {
		ns := t.defineMulti(x, []string{vs, "bool"}, []string{val, dom})
		t.typeFacts("true", ns[0], mt.Elem())
		t.loadedPtrFacts(R, ns[0], mt.Elem(), nil)
	} else {
		n := t.define(x, smtSort(vs), val)
		t.typeFacts("true", n, mt.Elem())
		t.loadedPtrFacts(R, n, mt.Elem(), nil)
	}
}

func (t *tr) next(x *ssa.Next, R string, heaps map[string]string) {
	tup := x.Type().(*types.Tuple)
	ok := t.fresh("next_ok", "Bool")
	var ns []string
	ns = append(ns, ok)
	for i := 1; i < tup.Len(); i++ {
		ty := tup.At(i).Type()
		if _, inv := ty.(*types.Basic); inv && ty.(*types.Basic).Kind() == types.Invalid {
			ns = append(ns, "0")
			continue
		}
		for _, l := range leaves(ty) {
			n := t.fresh("next", smtSort(l))
			ns = append(ns, n)
			if len(leaves(ty)) == 1 {
				t.typeFacts("true", n, ty)
				t.loadedPtrFacts(R, n, ty, nil)
			}
		}
	}
	t.val[x] = ns
	if !x.IsString {
		if rg, isRange := x.Iter.(*ssa.Range); isRange {
			if mt, isMap := rg.X.Type().Underlying().(*types.Map); isMap {
				ks, vs := mapSorts(mt)
				if ks != "" && len(ns) >= 2 {
					m := t.v(rg.X)
					t.assume("", fmt.Sprintf("(=> %s (and (not (= %s 0)) (select (select %s %s) %s)))", ok, m, t.H(heaps, "MD_"+ks), m, ns[1]))
					if vs != "" && len(ns) >= 3 {
						t.assume("", fmt.Sprintf("(=> %s (= %s (select (select %s %s) %s)))", ok, ns[2], t.H(heaps, "MV_"+ks+"_"+vs), m, ns[1]))
					}
				}
			}
		}
	}
	t.abstractf("range over map/string: iteration order and coverage are nondeterministic")
}

// ---------------------------------------------------------------- return

func (t *tr) ret(x *ssa.Return, b *ssa.BasicBlock, R string, heaps map[string]string) {
	t.returns = append(t.returns, R)
	t.retBlocks = append(t.retBlocks, b)
	if t.parent != nil {
		var vs []string
		for _, r := range x.Results {
			vs = append(vs, t.vals(r)...)
		}
		t.retInfo = append(t.retInfo, inlineRet{R, vs, copyMap(heaps)})
		return
	}
	if t.own == nil {
		return
	}
	var res [][]string
	for _, r := range x.Results {
		res = append(res, t.vals(r))
	}
	env := t.ownEnv(res)
	idx := len(t.returns)
	// ghost entries of objects this function allocated are defined here (specification-only state of a fresh object)
	for _, gi := range t.own.GhostInit {
		g := t.eng.specs.Ghosts[gi.Ghost]
		if g != nil && len(g.Keys) == 2 && g.Keys[0] == "ref" && gi.Key2 != nil {
			// entry form: ghostinit g(c, k) = v for a fresh object c
			c := &evalCtx{t: t, env: env, cur: heaps, old: t.oldHeaps}
			var key, key2, val string
			func() {
				defer func() {
					if r := recover(); r != nil {
						t.fatalf("ghostinit %s: %v", gi.Src, r)
					}
				}()
				key = c.ghostKey("ref", c.eval(gi.Key))
				key2 = c.ghostKey(g.Keys[1], c.eval(gi.Key2))
				val = c.coerce(c.eval(gi.Val), g.Val)
			}()
			if key == "" {
				continue
			}
			t.oblige("ensures", fmt.Sprintf("ghostinit/%s@return[%d]", gi.Ghost, idx), R, fmt.Sprintf("(or (= %s 0) (not (existed %s)))", key, key), x.Pos())
			h := "G_" + gi.Ghost
			t.setHeap(heaps, h, fmt.Sprintf("(ite (and %s (not (= %s 0))) (store %s %s (store (select %s %s) %s %s)) %s)", R, key, t.H(heaps, h), key, t.H(heaps, h), key, key2, val, t.H(heaps, h)))
			continue
		}
		if g != nil && len(g.Keys) == 2 && g.Keys[0] == "ref" {
			// row form: ghostinit g(c) = h(r) - every entry g(c, k) of the fresh object c is defined as h(r, k)
			ce, ok := gi.Val.(*ast.CallExpr)
			var src *GhostDecl
			if ok && len(ce.Args) == 1 {
				if id, ok := ce.Fun.(*ast.Ident); ok {
					src = t.eng.specs.Ghosts[id.Name]
				}
			}
			if src == nil || len(src.Keys) != 2 || src.Keys[0] != "ref" || src.Keys[1] != g.Keys[1] || src.Val != g.Val {
				t.fatalf("ghostinit %s: row form needs `g(c) = h(r)` with two-key ghosts of the same shape", gi.Src)
				continue
			}
			c := &evalCtx{t: t, env: env, cur: heaps, old: t.oldHeaps}
			var key, skey string
			func() {
				defer func() {
					if r := recover(); r != nil {
						t.fatalf("ghostinit %s: %v", gi.Src, r)
					}
				}()
				key = c.ghostKey("ref", c.eval(gi.Key))
				skey = c.ghostKey("ref", c.eval(ce.Args[0]))
			}()
			if key == "" {
				continue
			}
			t.oblige("ensures", fmt.Sprintf("ghostinit/%s@return[%d]", gi.Ghost, idx), R, fmt.Sprintf("(or (= %s 0) (not (existed %s)))", key, key), x.Pos())
			h := "G_" + gi.Ghost
			srcRow := fmt.Sprintf("(select %s %s)", t.H(heaps, "G_"+ce.Fun.(*ast.Ident).Name), skey)
			t.setHeap(heaps, h, fmt.Sprintf("(ite (and %s (not (= %s 0))) (store %s %s %s) %s)", R, key, t.H(heaps, h), key, srcRow, t.H(heaps, h)))
			continue
		}
		if g == nil || len(g.Keys) != 1 || g.Keys[0] != "ref" {
			t.fatalf("ghostinit %s: needs a ghost with one ref key", gi.Ghost)
			continue
		}
		c := &evalCtx{t: t, env: env, cur: heaps, old: t.oldHeaps}
		var key, val string
		func() {
			defer func() {
				if r := recover(); r != nil {
					t.fatalf("ghostinit %s: %v", gi.Src, r)
				}
			}()
			key = c.ghostKey("ref", c.eval(gi.Key))
			val = c.coerce(c.eval(gi.Val), g.Val)
		}()
		if key == "" {
			continue
		}
		t.oblige("ensures", fmt.Sprintf("ghostinit/%s@return[%d]", gi.Ghost, idx), R, fmt.Sprintf("(or (= %s 0) (not (existed %s)))", key, key), x.Pos())
		h := "G_" + gi.Ghost
		t.setHeap(heaps, h, fmt.Sprintf("(ite (and %s (not (= %s 0))) (store %s %s %s) %s)", R, key, t.H(heaps, h), key, val, t.H(heaps, h)))
	}
	if t.own.AbstractAs != "" {
		if ty := t.eng.typeByName(t.own.AbstractAs, t.pkg); ty != nil {
			env.abstract, env.abstractAs = true, ty
		} else {
			t.fatalf("abstractas: unknown type %s", t.own.AbstractAs)
		}
	}
	for _, e := range t.own.Ensures {
		term, err := t.evalGoal(e.Expr, env, heaps, t.oldHeaps)
		if err != nil {
			t.fatalf("ensures %s (%s): %v", e.Label, e.Where, err)
			continue
		}
		t.oblige("ensures", fmt.Sprintf("ensures/%s@return[%d]", e.Label, idx), R, term, x.Pos())
	}
	// behavioural subtyping: the interface method's postcondition, read through the abstraction of its ghosts
	for _, key := range t.own.Refines {
		ifs := t.eng.specs.Funcs["invoke:"+key]
		if ifs == nil {
			t.fatalf("refines %s: no contract for that interface method", key)
			continue
		}
		renv := &senv{t: t, vars: map[string]*sv{}, lets: map[string]ast.Expr{}, pkg: t.pkg, abstract: true}
		if len(ifs.Params) != len(t.fn.Params) || len(ifs.Results) != len(res) {
			t.fatalf("refines %s: arity mismatch", key)
			continue
		}
		for i, p := range t.fn.Params {
			renv.vars[ifs.Params[i]] = t.svOfTerms(t.val[p], p.Type())
		}
		for i := range res {
			renv.vars[ifs.Results[i]] = t.svOfTerms(res[i], t.fn.Signature.Results().At(i).Type())
		}
		for _, l := range ifs.Lets {
			renv.lets[l.Name] = l.Expr
		}
		renv.letEnv = renv
		// the interface method's precondition held at entry (callers through the interface establish it)
		var ihyps []string
		for _, r := range ifs.Requires {
			if h, err := t.evalAssume(r.Expr, renv, t.oldHeaps, t.oldHeaps); err == nil {
				ihyps = append(ihyps, h)
			}
		}
		for _, e := range ifs.Ensures {
			term, err := t.evalGoal(e.Expr, renv, heaps, t.oldHeaps)
			if err != nil {
				t.fatalf("refines %s ensures %s: %v", key, e.Label, err)
				continue
			}
			if len(ihyps) > 0 {
				term = fmt.Sprintf("(=> (and %s) %s)", strings.Join(ihyps, " "), term)
			}
			t.oblige("refines", fmt.Sprintf("refines/%s.%s@return[%d]", shortName(key), e.Label, idx), R, term, x.Pos())
		}
	}
	// frame: everything outside the modifies clause is unchanged
	if !t.own.Havoc {
		t.frameObligations(heaps, R, fmt.Sprintf("return[%d]", idx), x.Pos(), nil)
	}
}

// assumesNoWrap: the contract of the function under verification (for a helper body translated in place: of the function
// it is inlined into) states `assume nowrap`.
func (t *tr) assumesNoWrap() bool {
	for a := t; a != nil; a = a.parent {
		if a.own != nil && a.own.NoWrap {
			return true
		}
	}
	return false
}
