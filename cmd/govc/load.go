package main

import (
	"fmt"
	"go/ast"
	"go/token"
	"go/types"
	"os"
	"path/filepath"
	"sort"
	"strings"

	"golang.org/x/tools/go/packages"
	"golang.org/x/tools/go/ssa"
	"golang.org/x/tools/go/ssa/ssautil"
)

const hcPath = "github.com/brutella/hc"

type Loaded struct {
	eng   *Engine
	pkgs  []*packages.Package
	files map[*token.File]*ast.File
}

func (e *Engine) fileFor(pos token.Pos) *ast.File {
	tf := e.fset.File(pos)
	if tf == nil {
		return nil
	}
	return astFiles[tf]
}

var astFiles = map[*token.File]*ast.File{}

func loadRepo(repo, verifDir string, overlay map[string][]byte, extraPatterns ...string) (*Engine, error) {
	cfg := &packages.Config{
		Mode:       packages.LoadAllSyntax,
		Dir:        repo,
		BuildFlags: []string{"-tags=verif"},
		Overlay:    overlay,
		Env:        append(os.Environ(), "GOFLAGS=-mod=mod", "GOPROXY=off", "GOSUMDB=off", "GOTOOLCHAIN=local", "CGO_ENABLED=0"),
	}
	patterns := append([]string{"./..."}, extraPatterns...)
	pkgs, err := packages.Load(cfg, patterns...)
	if err != nil {
		return nil, err
	}
	var loadErrs []string
	packages.Visit(pkgs, nil, func(p *packages.Package) {
		if !strings.HasPrefix(p.PkgPath, hcPath) {
			return
		}
		for _, e := range p.Errors {
			loadErrs = append(loadErrs, e.Error())
		}
	})
	if len(loadErrs) > 0 {
		return nil, fmt.Errorf("cannot load %s: %s", repo, strings.Join(loadErrs, "; "))
	}
	prog, _ := ssautil.AllPackages(pkgs, ssa.GlobalDebug|ssa.InstantiateGenerics)
	prog.Build()
	eng := &Engine{prog: prog, specs: newSpecs(), tags: map[string]int{}, tagTy: map[int]types.Type{}, lits: map[string]string{},
		embedded: map[string]bool{}, arrayElem: map[string]bool{}, byName: map[string]*ssa.Function{}, globalsWritten: map[string]bool{},
		fset: prog.Fset, pkgs: map[string]*ssa.Package{}, uncomparable: map[int]bool{}, globalFuncInit: map[string]*ssa.Function{}, elemKeys: map[string]int{}}
	for _, p := range prog.AllPackages() {
		eng.pkgs[p.Pkg.Path()] = p
	}
	for fn := range ssautil.AllFunctions(prog) {
		eng.byName[fn.String()] = fn
	}
	// pre-registered tags
	eng.tag(types.Typ[types.Int])
	eng.tag(types.Typ[types.String])
	eng.tag(types.Typ[types.Bool])
	eng.tag(types.Typ[types.Float64])
	eng.tag(types.NewMap(types.Typ[types.String], types.NewInterfaceType(nil, nil)))
	eng.tag(types.NewSlice(types.NewInterfaceType(nil, nil)))
	// deterministic tags for every named type of hc (and pointers to them), so that the scripts do not depend on the order
	// in which functions are translated
	var hcp []string
	for p := range eng.pkgs {
		if strings.HasPrefix(p, hcPath) {
			hcp = append(hcp, p)
		}
	}
	sort.Strings(hcp)
	for _, p := range hcp {
		sc := eng.pkgs[p].Pkg.Scope()
		for _, n := range sc.Names() {
			if tn, ok := sc.Lookup(n).(*types.TypeName); ok && !tn.IsAlias() {
				tg := eng.tag(tn.Type())
				eng.tag(types.NewPointer(tn.Type()))
				if _, isStruct := tn.Type().Underlying().(*types.Struct); isStruct {
					eng.structTags = append(eng.structTags, tg)
				}
			}
		}
	}
	for _, n := range []string{"bytes.Buffer", "net/http.Request", "os.File", "sync.Mutex"} {
		if ty := eng.typeByName(n, nil); ty != nil {
			tg := eng.tag(ty)
			eng.tag(types.NewPointer(ty))
			eng.structTags = append(eng.structTags, tg)
		}
	}
	// ... and for every type that occurs in the SSA of hc's functions (values, allocations, conversions), with the slice
	// and pointer types built from them, in sorted order: tags handed out lazily during translation would depend on the
	// scheduling of the parallel translations
	{
		seenTy := map[string]types.Type{}
		note := func(ty types.Type) {
			if ty == nil {
				return
			}
			switch ty.(type) {
			case *types.Basic, *types.Named, *types.Pointer, *types.Slice, *types.Array, *types.Map, *types.Chan, *types.Struct, *types.Signature, *types.Interface, *types.Alias:
			default:
				return // tuples, go/ssa's internal pseudo types (range iterators, ...)
			}
			seenTy[typeKey(ty)] = ty
			switch u := ty.Underlying().(type) {
			case *types.Slice:
				st := types.NewSlice(u.Elem())
				seenTy[typeKey(st)] = st
				seenTy[typeKey(u.Elem())] = u.Elem()
			case *types.Pointer:
				seenTy[typeKey(u.Elem())] = u.Elem()
			case *types.Array:
				st := types.NewSlice(u.Elem())
				seenTy[typeKey(st)] = st
			}
		}
		for _, fn := range eng.byName {
			if fn.Pkg == nil || !strings.HasPrefix(fn.Pkg.Pkg.Path(), hcPath) {
				continue
			}
			if fn.TypeParams().Len() > 0 && len(fn.TypeArgs()) == 0 {
				continue // generic body: its types mention type parameters
			}
			for _, p := range fn.Params {
				note(p.Type())
			}
			for _, b := range fn.Blocks {
				for _, ins := range b.Instrs {
					if v, ok := ins.(ssa.Value); ok {
						note(v.Type())
					}
					switch x := ins.(type) {
					case *ssa.MakeInterface:
						note(x.X.Type())
					case *ssa.TypeAssert:
						note(x.AssertedType)
					}
				}
			}
		}
		var keys []string
		for k := range seenTy {
			keys = append(keys, k)
		}
		sort.Strings(keys)
		for _, k := range keys {
			eng.tag(seenTy[k])
		}
	}
	// syntax index + contract files
	packages.Visit(pkgs, nil, func(p *packages.Package) {
		for i, f := range p.Syntax {
			tf := prog.Fset.File(f.Pos())
			if tf != nil {
				astFiles[tf] = f
			}
			if !strings.HasPrefix(p.PkgPath, hcPath) {
				continue
			}
			name := ""
			if i < len(p.CompiledGoFiles) {
				name = p.CompiledGoFiles[i]
			}
			if tf != nil {
				name = tf.Name()
			}
			if filepath.Base(name) == "contracts_verif.go" {
				var text []byte
				if ov, ok := overlay[name]; ok {
					text = ov
				} else {
					text, _ = os.ReadFile(name)
				}
				eng.specs.parseSpecText(name, string(text), p.PkgPath)
			}
		}
	})
	eng.specs.loadTrustedSpecs(filepath.Join(verifDir, "contracts"))
	eng.scanTypes()
	eng.scanGlobalWrites()
	return eng, nil
}

// scanTypes finds named struct types that occur by value inside other structs/arrays (no pointer type invariant for them)
// and element types of Go array types.
func (e *Engine) scanTypes() {
	seen := map[types.Type]bool{}
	markByValue := func(t types.Type) {
		if n, ok := t.(*types.Named); ok {
			if _, isStruct := n.Underlying().(*types.Struct); isStruct {
				e.embedded[types.TypeString(n, nil)] = true
			}
		}
	}
	var visit func(t types.Type)
	visit = func(t types.Type) {
		if t == nil || seen[t] {
			return
		}
		seen[t] = true
		switch u := t.(type) {
		case *types.Named:
			visit(u.Underlying())
		case *types.Struct:
			for i := 0; i < u.NumFields(); i++ {
				markByValue(u.Field(i).Type())
				visit(u.Field(i).Type())
			}
		case *types.Array:
			if u.Len() > 0 { // a zero-length array has no cells: no slice element can live in it
				e.arrayElem[types.TypeString(u.Elem(), nil)] = true
				markByValue(u.Elem())
			}
			visit(u.Elem())
		case *types.Pointer:
			visit(u.Elem())
		case *types.Slice:
			markByValue(u.Elem()) // &s[i] points into the slice's backing object
			visit(u.Elem())
		case *types.Chan:
			visit(u.Elem())
		case *types.Map:
			visit(u.Key())
			visit(u.Elem())
		case *types.Tuple:
			for i := 0; i < u.Len(); i++ {
				visit(u.At(i).Type())
			}
		case *types.Signature:
			visit(u.Params())
			visit(u.Results())
		}
	}
	for _, p := range e.prog.AllPackages() {
		sc := p.Pkg.Scope()
		for _, n := range sc.Names() {
			if tn, ok := sc.Lookup(n).(*types.TypeName); ok {
				visit(tn.Type())
			}
		}
	}
	for _, fn := range e.byName {
		for _, b := range fn.Blocks {
			for _, ins := range b.Instrs {
				if a, ok := ins.(*ssa.Alloc); ok {
					if appendOnlyVarargs(a) {
						// the temporary array of `append(s, x)`: its cells are copied, the array itself is never reachable
						// through a slice value that outlives the append
						if at, ok := a.Type().(*types.Pointer).Elem().(*types.Array); ok {
							visit(at.Elem())
							continue
						}
					}
					visit(a.Type())
				}
			}
		}
	}
}

func (e *Engine) scanGlobalWrites() {
	for _, fn := range e.byName {
		if fn.Name() == "init" || strings.HasPrefix(fn.Name(), "init#") {
			// package-level variables initialised with a function literal
			for _, b := range fn.Blocks {
				for _, ins := range b.Instrs {
					if st, ok := ins.(*ssa.Store); ok {
						if g, ok := st.Addr.(*ssa.Global); ok {
							if f, ok := st.Val.(*ssa.Function); ok {
								e.globalFuncInit[g.Pkg.Pkg.Path()+"."+g.Name()] = f
							}
						}
					}
				}
			}
			continue
		}
		for _, b := range fn.Blocks {
			for _, ins := range b.Instrs {
				if st, ok := ins.(*ssa.Store); ok {
					if g, ok := st.Addr.(*ssa.Global); ok {
						e.globalsWritten[g.Pkg.Pkg.Path()+"."+g.Name()] = true
					}
				}
				// address of a global escaping into a call is treated as written
				if c, ok := ins.(ssa.CallInstruction); ok {
					for _, a := range c.Common().Args {
						if g, ok := a.(*ssa.Global); ok {
							e.globalsWritten[g.Pkg.Pkg.Path()+"."+g.Name()] = true
						}
					}
				}
			}
		}
	}
}

// typeByName resolves the type names used in contracts: "int", "float64", "*pkg/path.T", "[]byte",
// "map[string]interface {}", "interface {}", or an unqualified name of the contract's package.
func (e *Engine) typeByName(name string, pkg *types.Package) types.Type {
	name = strings.TrimSpace(name)
	switch {
	case strings.HasPrefix(name, "*"):
		if el := e.typeByName(name[1:], pkg); el != nil {
			return types.NewPointer(el)
		}
		return nil
	case len(name) > 2 && name[0] == '[' && name[1] >= '0' && name[1] <= '9':
		j := strings.Index(name, "]")
		if j < 0 {
			return nil
		}
		var n int64
		if _, err := fmt.Sscanf(name[1:j], "%d", &n); err != nil {
			return nil
		}
		if el := e.typeByName(name[j+1:], pkg); el != nil {
			return types.NewArray(el, n)
		}
		return nil
	case strings.HasPrefix(name, "[]"):
		if el := e.typeByName(name[2:], pkg); el != nil {
			return types.NewSlice(el)
		}
		return nil
	case strings.HasPrefix(name, "map["):
		d := 0
		for i := 3; i < len(name); i++ {
			if name[i] == '[' {
				d++
			} else if name[i] == ']' {
				d--
				if d == 0 {
					k, v := e.typeByName(name[4:i], pkg), e.typeByName(name[i+1:], pkg)
					if k != nil && v != nil {
						return types.NewMap(k, v)
					}
					return nil
				}
			}
		}
		return nil
	case name == "interface {}" || name == "interface{}" || name == "any":
		return types.NewInterfaceType(nil, nil)
	case name == "error":
		return types.Universe.Lookup("error").Type()
	case name == "byte":
		return types.Typ[types.Uint8]
	}
	if obj := types.Universe.Lookup(name); obj != nil {
		if tn, ok := obj.(*types.TypeName); ok {
			return tn.Type()
		}
	}
	if i := strings.LastIndex(name, "."); i >= 0 {
		if p := e.pkgs[name[:i]]; p != nil {
			if tn, ok := p.Pkg.Scope().Lookup(name[i+1:]).(*types.TypeName); ok {
				return tn.Type()
			}
		}
		return nil
	}
	if pkg != nil {
		if tn, ok := pkg.Scope().Lookup(name).(*types.TypeName); ok {
			return tn.Type()
		}
	}
	return nil
}

// ifaceMethod resolves "pkg/path.Iface.Method".
func (e *Engine) ifaceMethod(key string) (types.Type, *types.Func) {
	i := strings.LastIndex(key, ".")
	if i < 0 {
		return nil, nil
	}
	ty := e.typeByName(key[:i], nil)
	if ty == nil {
		return nil, nil
	}
	it, ok := ty.Underlying().(*types.Interface)
	if !ok {
		return nil, nil
	}
	for k := 0; k < it.NumMethods(); k++ {
		if it.Method(k).Name() == key[i+1:] {
			return ty, it.Method(k)
		}
	}
	return nil, nil
}

// checkSpecBindings: every contract must bind to an existing function / interface method.
func (e *Engine) checkSpecBindings() []string {
	var errs []string
	var keys []string
	for k := range e.specs.Funcs {
		keys = append(keys, k)
	}
	sort.Strings(keys)
	for _, k := range keys {
		fs := e.specs.Funcs[k]
		if strings.HasPrefix(k, "invoke:") {
			if _, m := e.ifaceMethod(strings.TrimPrefix(k, "invoke:")); m == nil {
				errs = append(errs, fmt.Sprintf("%s: contract for unknown interface method %s", fs.Where, k))
			}
			continue
		}
		if strings.HasPrefix(k, "funcvalue:") {
			ty := e.typeByName(strings.TrimPrefix(k, "funcvalue:"), nil)
			if ty == nil {
				errs = append(errs, fmt.Sprintf("%s: contract for unknown function type %s", fs.Where, k))
			} else if _, ok := ty.Underlying().(*types.Signature); !ok {
				errs = append(errs, fmt.Sprintf("%s: %s is not a function type", fs.Where, k))
			}
			continue
		}
		if e.globalFuncInit[k] != nil {
			continue
		}
		if e.byName[k] == nil {
			// trusted contracts for functions that are not (or no longer) called are harmless
			if !fs.Trusted || fs.Pkg != "" {
				errs = append(errs, fmt.Sprintf("%s: contract for unknown function %s", fs.Where, k))
			}
		}
	}
	return errs
}

// checkWriters: static scan. The fields named by a writers rule may be stored to only inside the allowed functions
// (which are under contract and preserve the object invariant that mentions those fields).
func (e *Engine) checkWriters(prop string) (checked int, violations []string) {
	for _, wr := range e.specs.Writers {
		if wr.Prop != prop {
			continue
		}
		checked++
		allowed := map[string]bool{}
		for _, a := range wr.Allowed {
			allowed[a] = true
		}
		fields := map[string]bool{}
		for _, f := range wr.Fields {
			fields[f] = true
		}
		for key, fn := range e.byName {
			if allowed[key] || !strings.Contains(key, hcPath) {
				continue
			}
			for _, b := range fn.Blocks {
				for _, ins := range b.Instrs {
					st, ok := ins.(*ssa.Store)
					if !ok {
						continue
					}
					fa, ok := st.Addr.(*ssa.FieldAddr)
					if !ok {
						continue
					}
					pt, ok := fa.X.Type().Underlying().(*types.Pointer)
					if !ok {
						continue
					}
					if types.TypeString(pt.Elem(), nil) != wr.Type {
						continue
					}
					stt := pt.Elem().Underlying().(*types.Struct)
					if fields[stt.Field(fa.Field).Name()] {
						// composite literal initialisation of a fresh object inside a constructor is a write too
						violations = append(violations, fmt.Sprintf("%s writes %s.%s (rule at %s allows only %s)", key, wr.Type, stt.Field(fa.Field).Name(), wr.Where, strings.Join(wr.Allowed, ", ")))
					}
				}
			}
		}
	}
	sort.Strings(violations)
	return
}

// appendOnlyVarargs: an SSA "varargs" array whose only uses are element stores and one slice passed to builtin append.
func appendOnlyVarargs(a *ssa.Alloc) bool {
	if a.Comment != "varargs" || a.Referrers() == nil {
		return false
	}
	for _, r := range *a.Referrers() {
		switch x := r.(type) {
		case *ssa.IndexAddr:
			if x.Referrers() != nil {
				for _, rr := range *x.Referrers() {
					if _, ok := rr.(*ssa.Store); !ok {
						return false
					}
				}
			}
		case *ssa.Slice:
			if x.Referrers() == nil {
				return false
			}
			for _, rr := range *x.Referrers() {
				c, ok := rr.(*ssa.Call)
				if !ok {
					return false
				}
				b, ok := c.Call.Value.(*ssa.Builtin)
				if !ok || b.Name() != "append" || len(c.Call.Args) < 2 || c.Call.Args[1] != ssa.Value(x) {
					return false
				}
			}
		case *ssa.DebugRef:
		default:
			return false
		}
	}
	return true
}

// checkJSONTags: type-level contract (C14): the structs that make up the attribute database carry their HAP JSON keys
// (without omitempty, so that ids and types are always emitted). Decided with go/types, no solver.
func (e *Engine) checkJSONTags() (checked int, violations []string) {
	want := map[string]map[string]string{
		"github.com/brutella/hc/accessory.Accessory":           {"ID": "aid", "Services": "services"},
		"github.com/brutella/hc/accessory.Container":           {"Accessories": "accessories"},
		"github.com/brutella/hc/service.servicePayload":        {"ID": "iid", "Type": "type", "Characteristics": "characteristics"},
		"github.com/brutella/hc/characteristic.Characteristic": {"ID": "iid", "Type": "type", "Perms": "perms", "Format": "format"},
	}
	var names []string
	for n := range want {
		names = append(names, n)
	}
	sort.Strings(names)
	for _, n := range names {
		ty := e.typeByName(n, nil)
		if ty == nil {
			violations = append(violations, "type "+n+" not found")
			continue
		}
		st, ok := ty.Underlying().(*types.Struct)
		if !ok {
			violations = append(violations, n+" is not a struct")
			continue
		}
		for field, key := range want[n] {
			checked++
			found := false
			for i := 0; i < st.NumFields(); i++ {
				if st.Field(i).Name() != field {
					continue
				}
				found = true
				tag := reflectTagGet(st.Tag(i), "json")
				if tag != key {
					violations = append(violations, fmt.Sprintf("%s.%s: json tag %q, want exactly %q (always emitted)", n, field, tag, key))
				}
			}
			if !found {
				violations = append(violations, fmt.Sprintf("%s has no field %s", n, field))
			}
		}
	}
	return
}

func reflectTagGet(tag, key string) string {
	for tag != "" {
		i := strings.Index(tag, key+":\"")
		if i < 0 {
			return ""
		}
		rest := tag[i+len(key)+2:]
		j := strings.Index(rest, "\"")
		if j < 0 {
			return ""
		}
		return rest[:j]
	}
	return ""
}

// checkLocked: static lock discipline (C08). Interleavings themselves are outside the verifier; what is checked is the
// classical sufficient condition that the guarded calls run under the per-connection mutex.
func (e *Engine) checkLocked(prop string) (checked int, violations []string) {
	for _, lr := range e.specs.Locked {
		if lr.Prop != prop {
			continue
		}
		fn := e.byName[lr.Func]
		if fn == nil {
			checked++
			violations = append(violations, fmt.Sprintf("function %s not found (rule at %s)", lr.Func, lr.Where))
			continue
		}
		isMutexOp := func(ins ssa.Instruction, name string) bool {
			c, ok := ins.(ssa.CallInstruction)
			if !ok {
				return false
			}
			cc := c.Common()
			sc := cc.StaticCallee()
			if sc == nil || sc.String() != "(*sync.Mutex)."+name || len(cc.Args) == 0 {
				return false
			}
			fa, ok := cc.Args[0].(*ssa.FieldAddr)
			if !ok {
				return false
			}
			st := fa.X.Type().Underlying().(*types.Pointer).Elem().Underlying().(*types.Struct)
			return st.Field(fa.Field).Name() == lr.Field && fa.X == ssa.Value(fn.Params[0])
		}
		type site struct {
			b   *ssa.BasicBlock
			idx int
		}
		var locks, unlocks []site
		deferredUnlock := false
		for _, b := range fn.Blocks {
			for i, ins := range b.Instrs {
				if isMutexOp(ins, "Lock") {
					if _, isDefer := ins.(*ssa.Defer); !isDefer {
						locks = append(locks, site{b, i})
					}
				}
				if isMutexOp(ins, "Unlock") {
					if _, isDefer := ins.(*ssa.Defer); isDefer {
						deferredUnlock = true
					} else {
						unlocks = append(unlocks, site{b, i})
					}
				}
			}
		}
		before := func(a, b site) bool { // a executes before b on every path to b
			if a.b == b.b {
				return a.idx < b.idx
			}
			return a.b.Dominates(b.b)
		}
		for _, want := range lr.Calls {
			found := false
			for _, b := range fn.Blocks {
				for i, ins := range b.Instrs {
					c, ok := ins.(ssa.CallInstruction)
					if !ok {
						continue
					}
					if _, isDefer := ins.(*ssa.Defer); isDefer {
						continue
					}
					cc := c.Common()
					name := ""
					if cc.IsInvoke() {
						name = types.TypeString(cc.Value.Type(), nil) + "." + cc.Method.Name()
					} else if sc := cc.StaticCallee(); sc != nil {
						name = sc.String()
					}
					if name != want && !strings.HasSuffix(name, "."+want) {
						continue
					}
					found = true
					checked++
					here := site{b, i}
					ok2 := false
					for _, l := range locks {
						if before(l, here) {
							ok2 = true
						}
					}
					for _, u := range unlocks {
						if !before(here, u) {
							ok2 = false
						}
					}
					_ = deferredUnlock
					if !ok2 {
						violations = append(violations, fmt.Sprintf("%s: call to %s at %s is not covered by %s.Lock()", lr.Func, want, e.fset.Position(ins.Pos()), lr.Field))
					}
				}
			}
			if !found {
				checked++
				violations = append(violations, fmt.Sprintf("%s: no call to %s found (rule at %s no longer fits the code)", lr.Func, want, lr.Where))
			}
		}
		// the critical section covers every access to the receiver's state: any instruction that uses the receiver (a field
		// address other than the mutex itself, a method call on it, passing it on) must be covered by the lock as well
		recv := ssa.Value(fn.Params[0])
		for _, b := range fn.Blocks {
			for i, ins := range b.Instrs {
				if _, isDbg := ins.(*ssa.DebugRef); isDbg {
					continue
				}
				uses := false
				for _, op := range ins.Operands(nil) {
					if op != nil && *op == recv {
						uses = true
					}
				}
				if !uses {
					continue
				}
				if fa, ok := ins.(*ssa.FieldAddr); ok {
					st := fa.X.Type().Underlying().(*types.Pointer).Elem().Underlying().(*types.Struct)
					if st.Field(fa.Field).Name() == lr.Field {
						continue
					}
				}
				checked++
				here := site{b, i}
				ok2 := false
				for _, l := range locks {
					if before(l, here) {
						ok2 = true
					}
				}
				for _, u := range unlocks {
					if !before(here, u) {
						ok2 = false
					}
				}
				if !ok2 {
					violations = append(violations, fmt.Sprintf("%s: the receiver's state is accessed at %s outside the section protected by %s", lr.Func, e.fset.Position(ins.Pos()), lr.Field))
				}
			}
		}
	}
	return
}
