package main

import (
	"context"
	"os/exec"
	"encoding/json"
	"flag"
	"fmt"
	"os"
	"path/filepath"
	"regexp"
	"sort"
	"strconv"
	"strings"
	"time"

	"golang.org/x/tools/go/ssa"
)

type PropConfig struct {
	Title       string   `json:"title"`
	Level       string   `json:"level"`     // proof | other
	Functions   []string `json:"functions"` // ssa function keys under contract whose obligations decide the property
	Only        string   `json:"only"`      // optional regexp on obligation names
	Assumptions []string `json:"assumptions"`
	Undecided   []string `json:"undecided_subclaims"`
	Explanation string   `json:"explanation"`
	Static      []string `json:"static_checks"` // names of front-end (type-level) checks
	Bounded     []string `json:"bounded_checks"`
	FunctionsFrom string `json:"functions_from"` // JSON file (relative to /verif) written by a generator: {"functions": [...], "problems": [...]}
}

type KnownFinding struct {
	Property   string `json:"property"`
	Status     string `json:"status"` // known | fixed
	Function   string `json:"function"`
	Obligation string `json:"obligation"`
	What       string `json:"what"`
	Commit     string `json:"commit,omitempty"`
	Replay     string `json:"replay,omitempty"`
}

func loadProps(verif string) (map[string]*PropConfig, error) {
	b, err := os.ReadFile(filepath.Join(verif, "props.json"))
	if err != nil {
		return nil, err
	}
	m := map[string]*PropConfig{}
	if err := json.Unmarshal(b, &m); err != nil {
		return nil, fmt.Errorf("props.json: %v", err)
	}
	return m, nil
}

func loadKnown(verif string) []KnownFinding {
	b, err := os.ReadFile(filepath.Join(verif, "known_findings.json"))
	if err != nil {
		return nil
	}
	var out []KnownFinding
	if err := json.Unmarshal(b, &out); err != nil {
		fmt.Fprintln(os.Stderr, "known_findings.json:", err)
	}
	return out
}

func cmdCheck(args []string) int {
	opt := &Options{}
	var ov, prop, tier string
	fs := flag.NewFlagSet("check", flag.ExitOnError)
	commonFlags(fs, opt, &ov)
	fs.StringVar(&prop, "prop", "", "property id")
	fs.StringVar(&tier, "tier", "quick", "quick|thorough")
	fs.Parse(args)
	if t := os.Getenv("VERIF_TIER"); t == "quick" || t == "thorough" {
		tier = t
	}
	if s := os.Getenv("VERIF_SEED"); s != "" {
		opt.Seed, _ = strconv.Atoi(s)
	}
	opt.Thorough = tier == "thorough"
	if opt.Thorough && opt.PerQuery == 10*time.Second {
		opt.PerQuery = 40 * time.Second
	}
	t0 := time.Now()
	props, err := loadProps(opt.Verif)
	if err != nil {
		fmt.Fprintln(os.Stderr, err)
		return 2
	}
	pc := props[prop]
	if pc == nil {
		fmt.Fprintf(os.Stderr, "property %s is not configured in props.json\n", prop)
		return 2
	}
	eng, err := loadRepo(opt.Repo, opt.Verif, parseOverlays(ov))
	if err != nil {
		// the tree does not load/compile: not a verdict about the property
		fmt.Fprintln(os.Stderr, "ENGINE-ERROR: cannot load repository:", err)
		return 2
	}
	loadT := time.Since(t0)
	var engineErrs []string
	engineErrs = append(engineErrs, eng.specs.Errors...)
	engineErrs = append(engineErrs, eng.checkSpecBindings()...)

	var only *regexp.Regexp
	if pc.Only != "" {
		only = regexp.MustCompile(pc.Only)
	}
	var fns []*ssa.Function
	var missing []string
	fnOnly := map[string]*regexp.Regexp{}
	for _, k := range pc.Functions {
		// "key ## regexp": only the obligations of that function whose name matches count for this property
		if i := strings.Index(k, " ## "); i >= 0 {
			fnOnly[k[:i]] = regexp.MustCompile(k[i+4:])
			k = k[:i]
		}
		if f := eng.byName[k]; f != nil && len(f.Blocks) > 0 {
			fns = append(fns, f)
		} else {
			missing = append(missing, k)
		}
	}
	var genProblems []string
	genChecked := 0
	if pc.FunctionsFrom != "" {
		var gen struct {
			Functions []string `json:"functions"`
			Problems  []string `json:"problems"`
		}
		b, err := os.ReadFile(filepath.Join(opt.Verif, pc.FunctionsFrom))
		if err == nil {
			err = json.Unmarshal(b, &gen)
		}
		if err != nil {
			engineErrs = append(engineErrs, "functions_from: "+err.Error())
		}
		for _, k := range gen.Functions {
			if f := eng.byName[k]; f != nil && len(f.Blocks) > 0 {
				fns = append(fns, f)
			} else {
				missing = append(missing, k)
			}
		}
		genProblems = gen.Problems
		genChecked = len(gen.Functions)
	}
	// a property with hundreds of functions (the generated catalog of C15): the thorough tier keeps its cross-check by a
	// second solver but with small budgets, so that it ends within the hour
	opt.Light = opt.Thorough && len(fns) > 100
	results := eng.verifyAll(fns, opt)
	known := loadKnown(opt.Verif)
	opt.ExpectFail = map[string]bool{}
	for _, k := range known {
		if k.Status == "known" {
			opt.ExpectFail[k.Function+"#"+k.Obligation] = true
		}
	}

	type oblRec struct {
		Function   string `json:"function"`
		Obligation string `json:"obligation"`
		Status     string `json:"status"`
		Solver     string `json:"solver"`
		Where      string `json:"where"`
		Note       string `json:"note,omitempty"`
	}
	total, discharged := 0, 0
	var failed []oblRec
	var samples []interface{}
	solverCount := map[string]int{}
	var solverMs int64
	trusted := map[string]bool{}
	unknown := map[string]bool{}
	abstracted := map[string]int{}
	var vacuous []string
	violations := 0
	knownHit := map[int]bool{}
	var outLines []string
	replayDir := filepath.Join(opt.Verif, "replay", "out", prop)
	os.RemoveAll(replayDir)

	var knownObls []string
	report := func(fn, obl, status, where, note, model string) bool {
		full := fn + "#" + obl
		for i, k := range known {
			if k.Property == prop && k.Status == "known" && k.Function == fn && k.Obligation == obl {
				knownHit[i] = true
				knownObls = append(knownObls, full)
				outLines = append(outLines, fmt.Sprintf("KNOWN-FINDING: property=%s %s %s", prop, full, k.What))
				return true
			}
		}
		violations++
		os.MkdirAll(replayDir, 0755)
		rp := filepath.Join(replayDir, sanitize(shortName(fn)+"_"+obl)+".txt")
		confirmed := false
		var sb strings.Builder
		fmt.Fprintf(&sb, "property: %s\nfunction: %s\nfailed obligation: %s\nsource: %s\nsolver verdict: %s %s\n", prop, fn, obl, where, status, note)
		for _, k := range known {
			if k.Property == prop && k.Status == "fixed" && k.Function == fn && k.Obligation == obl {
				fmt.Fprintf(&sb, "history: this obligation failed before and was repaired by %s (%s) - it has returned\n", k.Commit, k.What)
			}
		}
		if model != "" {
			fmt.Fprintf(&sb, "solver model (candidate counterexample; values of parameters and block reachability):\n%s\n", model)
		} else {
			sb.WriteString("the solver returned no model for this obligation\n")
		}
		os.WriteFile(rp, []byte(sb.String()), 0644)
		line := fmt.Sprintf("VIOLATION property=%s replay=%s obligation=%s", prop, rp, full)
		if !confirmed {
			line += " no-failing-input-found"
		}
		outLines = append(outLines, line)
		return false
	}

	axiomProbeWG.Wait()
	for _, v := range axiomProbeResult {
		vacuous = append(vacuous, v)
	}
	for _, r := range results {
		solverMs += r.SolverMs
		for _, k := range r.Trusted {
			trusted[k] = true
		}
		for _, k := range r.Unknown {
			unknown[k] = true
		}
		for k, n := range r.Abstracted {
			abstracted[k] += n
		}
		anyFailed := false
		for _, o := range r.Obls {
			if o.Status != "unsat" {
				anyFailed = true
			}
		}
		if !anyFailed && len(r.Vacuous) > 0 {
			// (after a failed obligation has been assumed, unreachability of what follows is expected)
			vacuous = append(vacuous, r.Key+": "+r.Vacuous[0])
		}
		for _, f := range r.Fatal {
			engineErrs = append(engineErrs, r.Key+": "+f)
		}
		n := 0
		for _, o := range r.Obls {
			if only != nil && !only.MatchString(o.Name) {
				continue
			}
			if re := fnOnly[r.Key]; re != nil && !re.MatchString(o.Name) {
				continue
			}
			n++
			total++
			if o.Status == "unsat" {
				discharged++
				solverCount[o.Solver]++
				if len(samples) < 6 && (o.Kind == "ensures" || o.Kind == "requires" || len(samples) < 2) {
					samples = append(samples, map[string]string{"function": r.Key, "obligation": o.Name, "kind": o.Kind, "where": o.Where, "result": "discharged by " + o.Solver})
				}
				continue
			}
			if report(r.Key, o.Name, o.Status, o.Where, o.Note, o.Model) {
				total-- // a listed known finding: reported as such, not part of what this run claims as proved
				continue
			}
			failed = append(failed, oblRec{r.Key, o.Name, o.Status, o.Solver, o.Where, o.Note})
		}
		if n == 0 && len(r.Fatal) == 0 {
			engineErrs = append(engineErrs, r.Key+": generated zero obligations (vacuous)")
		}
	}
	for _, m := range missing {
		// a function under contract disappeared: the obligations that were discharged before can no longer be generated
		total++
		report(m, "exists", "missing", "?", "function under contract not found in the current tree", "")
		failed = append(failed, oblRec{m, "exists", "missing", "", "?", "function under contract not found"})
	}
	if pc.FunctionsFrom != "" {
		// pairing of the generator's source data with the code (e.g. every metadata entry has a constructor): one static
		// obligation per generated contract, violated by each problem the generator reports
		total += genChecked
		discharged += genChecked
		for _, v := range genProblems {
			total++
			report("static", "generator: "+v, "violated", "?", "the data the contracts are generated from does not pair with the code", "")
			failed = append(failed, oblRec{"static", "generator", "violated", "generator", "?", v})
		}
	}
	nw, wv := eng.checkWriters(prop)
	total += nw
	discharged += nw
	for _, v := range wv {
		discharged--
		if discharged < 0 {
			discharged = 0
		}
		report("static", "writers: "+v, "violated", "?", "field written outside the functions that preserve its invariant", "")
		failed = append(failed, oblRec{"static", "writers", "violated", "scan", "?", v})
	}
	if nl, lv := eng.checkLocked(prop); nl > 0 {
		total += nl
		discharged += nl - len(lv)
		for _, v := range lv {
			report("static", "lock: "+v, "violated", "?", "lock discipline", "")
			failed = append(failed, oblRec{"static", "lock", "violated", "ssa dominance", "?", v})
		}
	}
	for _, sc := range pc.Static {
		if sc == "jsontags" {
			n, vs := eng.checkJSONTags()
			total += n
			discharged += n - len(vs)
			for _, v := range vs {
				report("static", "jsontags: "+v, "violated", "?", "struct tag contract", "")
				failed = append(failed, oblRec{"static", "jsontags", "violated", "go/types", "?", v})
			}
		}
	}
	for _, v := range vacuous {
		total++
		report("vacuity", v, "vacuous", "?", "a return became unreachable: contradictory assumptions", "")
	}
	// bounded stand-ins (never counted as proved): Go tests under /verif/bounded, injected into the real package with
	// `go test -overlay` (nothing is written into the repository). Entry: "file|package dir|test regexp|stated bound".
	var boundedRecs []map[string]interface{}
	for _, bc := range pc.Bounded {
		f := strings.SplitN(bc, "|", 4)
		if len(f) != 4 {
			engineErrs = append(engineErrs, "bounded check entry malformed: "+bc)
			continue
		}
		src := filepath.Join(opt.Verif, "bounded", f[0])
		dst := filepath.Join(opt.Repo, f[1], "zz_verif_bounded_"+filepath.Base(f[0]))
		ovf := writeScratch("overlay_"+sanitize(f[0])+".json", fmt.Sprintf(`{"Replace":{%q:%q}}`, dst, src))
		ctx, cancel := context.WithTimeout(context.Background(), 5*time.Minute)
		cmd := exec.CommandContext(ctx, "go", "test", "-overlay", ovf, "-vet=off", "-count=1", "-timeout", "240s", "-run", f[2], "./"+f[1]+"/")
		cmd.Dir = opt.Repo
		tmp, _ := os.MkdirTemp("", "govc-bounded")
		cmd.Env = append(os.Environ(), "GOFLAGS=-mod=mod", "GOPROXY=off", "GOSUMDB=off", "GOTOOLCHAIN=local", "TMPDIR="+tmp)
		outb, err := cmd.CombinedOutput()
		cancel()
		os.RemoveAll(tmp)
		rec := map[string]interface{}{"test": f[0] + " -run " + f[2] + " (package " + f[1] + ")", "bound": f[3], "label": "bounded: not counted in obligations / discharged"}
		if err == nil {
			rec["result"] = "passed"
		} else {
			rec["result"] = "FAILED"
			violations++
			os.MkdirAll(replayDir, 0755)
			rp := filepath.Join(replayDir, "bounded_"+sanitize(f[0])+".txt")
			tail := string(outb)
			if len(tail) > 6000 {
				tail = tail[len(tail)-6000:]
			}
			os.WriteFile(rp, []byte(fmt.Sprintf("property: %s\nbounded check (stand-in, %s)\nre-run: cd %s && go test -overlay <{\"Replace\":{%q:%q}}> -vet=off -run '%s' ./%s/\noutput:\n%s\n", prop, f[3], opt.Repo, dst, src, f[2], f[1], tail)), 0644)
			outLines = append(outLines, fmt.Sprintf("VIOLATION property=%s replay=%s bounded-check=%s (failing input in the test output; test file %s)", prop, rp, f[0], src))
			failed = append(failed, oblRec{"bounded", f[0], "failed", "go test", "?", "bounded stand-in failed"})
		}
		boundedRecs = append(boundedRecs, rec)
	}
	for _, e := range engineErrs {
		outLines = append(outLines, "CONTRACT-ERROR: "+e)
	}
	// stale known findings
	for i, k := range known {
		if k.Property == prop && k.Status == "known" && !knownHit[i] {
			outLines = append(outLines, fmt.Sprintf("NOTE: known finding %s#%s no longer fails (stale entry)", k.Function, k.Obligation))
		}
	}

	var trustedList, unknownList, assumptions []string
	for k := range trusted {
		trustedList = append(trustedList, k)
	}
	for k := range unknown {
		unknownList = append(unknownList, k)
	}
	sort.Strings(trustedList)
	sort.Strings(unknownList)
	assumptions = append(assumptions, pc.Assumptions...)
	assumptions = append(assumptions,
		"govc's own translation (SSA -> VC) and contract compiler are trusted; go/ssa lowering is trusted",
		"integers: mathematical Int with explicit wrap-around per operation; int/uint are 64 bit; bit operators other than shifts/masks by constants are uninterpreted",
		"allocation never fails; no stack overflow; goroutine scheduling and the Go memory model are not modelled (sequential semantics per function)",
		"callers are checked against callee contracts, never bodies; callbacks and callees without contract may change every real heap cell but no ghost state")
	for _, k := range trustedList {
		assumptions = append(assumptions, "assumed contract (not verified): "+k)
	}
	for _, k := range unknownList {
		assumptions = append(assumptions, "callee without contract (havoc of the real heap assumed): "+k)
	}
	var abs []string
	for k, n := range abstracted {
		abs = append(abs, fmt.Sprintf("%s (x%d)", k, n))
	}
	sort.Strings(abs)
	for _, a := range abs {
		assumptions = append(assumptions, "abstracted in translation: "+a)
	}
	level := pc.Level
	if level == "" {
		level = "proof"
	}
	var fkeys []string
	for _, f := range fns {
		fkeys = append(fkeys, f.String())
	}
	if len(samples) == 0 {
		samples = append(samples, map[string]string{"note": "no obligation discharged"})
	}
	coverage := map[string]interface{}{
		"obligations":              total,
		"discharged":               discharged,
		"checker_cmd":              fmt.Sprintf("/verif/check %s %s  (govc check -prop %s -tier %s; z3-new 5.1.0 first, z3 4.8.12 and cvc5 1.0.3 on what it leaves open)", prop, tier, prop, tier),
		"trusted_base":             append([]string{"govc (this repository's VC generator)", "go/ssa + go/types (x/tools v0.29.0)", "z3 5.1.0 / z3 4.8.12 / cvc5 1.0.3"}, trustedList...),
		"functions_under_contract": fkeys,
		"discharged_by_solver":     solverCount,
		"solver_ms":                solverMs,
		"load_ms":                  loadT.Milliseconds(),
		"failed":                   failed,
		"samples":                  samples,
		"explanation":              pc.Explanation,
		"undecided_subclaims":      pc.Undecided,
		"unknown_callees":          unknownList,
		"known_findings_matched":   len(knownHit),
		"known_finding_obligations": knownObls,
		"engine_errors":            engineErrs,
		"bounded_checks":           boundedRecs,
	}
	ev := map[string]interface{}{
		"property_id": prop,
		"tier":        tier,
		"seed":        opt.Seed,
		"level":       level,
		"coverage":    coverage,
		"assumptions": assumptions,
		"wall_s":      time.Since(t0).Seconds(),
		"violations":  violations,
	}
	if err := writeJSON(filepath.Join(opt.Verif, "evidence", prop+".json"), ev); err != nil {
		fmt.Fprintln(os.Stderr, err)
	}
	for _, l := range outLines {
		fmt.Println(l)
	}
	fmt.Printf("%s %s: %d obligations, %d discharged, %d violations, %d known findings, %d functions, %.1fs\n", prop, tier, total, discharged, violations, len(knownHit), len(fns), time.Since(t0).Seconds())
	if len(engineErrs) > 0 && violations == 0 {
		// a contract that no longer binds is reported, never as a property violation
		fmt.Println("CONTRACT-MISMATCH: the contract set does not fit the current tree; see CONTRACT-ERROR lines")
		return 2
	}
	if violations > 0 {
		return 1
	}
	return 0
}
