package main

func cmdCheck(args []string) int { return 2 }
