package main

import (
	"fmt"
	"regexp"
	"sort"
	"strings"
)

var reLetBinder = regexp.MustCompile(`\(let \(\((cs[0-9]+_[0-9]+) `)
var reCSName = regexp.MustCompile(`\bcs[0-9]+_[0-9]+\b`)

// cseLet rewrites a term so that large repeated subterms are bound once with `let`. Only subterms that mention no
// variable bound by a quantifier *inside* the term are shared (they can be bound at the top of the term).
func cseLet(body string, prefix string) string {
	if len(body) < 4000 {
		return body
	}
	type node struct {
		start, end int // [start, end)
	}
	// collect subterm spans
	var stack []int
	count := map[string]int{}
	var spans []node
	for i := 0; i < len(body); i++ {
		switch body[i] {
		case '(':
			stack = append(stack, i)
		case ')':
			if len(stack) == 0 {
				return body
			}
			s := stack[len(stack)-1]
			stack = stack[:len(stack)-1]
			if i+1-s >= 60 {
				spans = append(spans, node{s, i + 1})
				count[body[s:i+1]]++
			}
		}
	}
	inner := map[string]bool{}
	for _, m := range reQBinder.FindAllStringSubmatch(body, -1) {
		inner[m[1]] = true
	}
	for _, m := range reLetBinder.FindAllStringSubmatch(body, -1) {
		inner[m[1]] = true
	}
	mentionsInner := func(t string) bool {
		for _, v := range reQVar.FindAllString(t, -1) {
			if inner[v] {
				return true
			}
		}
		for _, v := range reCSName.FindAllString(t, -1) {
			if inner[v] {
				return true
			}
		}
		if strings.Contains(t, "(let ") {
			return true
		}
		return strings.Contains(t, "forall") || strings.Contains(t, "exists") || strings.Contains(t, ":pattern") || strings.HasPrefix(t, "(!")
	}
	var cands []string
	for t, n := range count {
		if n >= 2 && !mentionsInner(t) {
			// binder lists like ((q1 Int)) are not terms
			if strings.HasPrefix(t, "((") {
				continue
			}
			cands = append(cands, t)
		}
	}
	if len(cands) == 0 {
		return body
	}
	sort.Slice(cands, func(i, j int) bool {
		if len(cands[i]) != len(cands[j]) {
			return len(cands[i]) < len(cands[j])
		}
		return cands[i] < cands[j]
	})
	if len(cands) > 400 {
		cands = cands[len(cands)-400:]
	}
	type def struct{ name, term string }
	var defs []def
	for k, t := range cands {
		name := fmt.Sprintf("%s_%d", prefix, k)
		// express this candidate with the names of the smaller ones
		tt := t
		for _, d := range defs {
			if len(d.term) < len(tt) {
				tt = strings.ReplaceAll(tt, d.term, d.name)
			}
		}
		defs = append(defs, def{name, t})
		cands[k] = tt
	}
	out := body
	// replace larger terms first in the body
	for k := len(defs) - 1; k >= 0; k-- {
		out = strings.ReplaceAll(out, defs[k].term, defs[k].name)
	}
	// nest lets: smallest outermost
	var sb strings.Builder
	used := 0
	for k, d := range defs {
		if !strings.Contains(out, d.name) {
			// may still be used by a later definition
			usedLater := false
			for j := k + 1; j < len(defs); j++ {
				if strings.Contains(cands[j], d.name) {
					usedLater = true
				}
			}
			if !usedLater {
				continue
			}
		}
		fmt.Fprintf(&sb, "(let ((%s %s)) ", d.name, cands[k])
		used++
	}
	sb.WriteString(out)
	sb.WriteString(strings.Repeat(")", used))
	return sb.String()
}
