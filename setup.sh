#!/bin/sh
# Build the verifier from files on disk only (x/tools vendored).
set -e
cd "$(dirname "$0")"
export GOFLAGS=-mod=vendor GOPROXY=off GOSUMDB=off GOTOOLCHAIN=local CGO_ENABLED=0
mkdir -p bin evidence
(cd cmd/govc && go build -o ../../bin/govc .)
echo "govc built"
