// place in: hap/   (demonstrates the defects repaired by the "fix:" commit on Connection.DecryptedRead)
package hap

import (
	"bytes"
	"io"
	"io/ioutil"
	"net"
	"testing"
	"time"

	"github.com/brutella/hc/crypto"
)

type segConn struct {
	segs   [][]byte // what each Read call of the socket delivers
	closed bool
}

func (c *segConn) Read(b []byte) (int, error) {
	if c.closed {
		return 0, io.ErrClosedPipe
	}
	if len(c.segs) == 0 {
		return 0, io.EOF
	}
	n := copy(b, c.segs[0])
	if n < len(c.segs[0]) {
		c.segs[0] = c.segs[0][n:]
	} else {
		c.segs = c.segs[1:]
	}
	return n, nil
}
func (c *segConn) Write(b []byte) (int, error)        { return len(b), nil }
func (c *segConn) Close() error                       { c.closed = true; return nil }
func (c *segConn) LocalAddr() net.Addr                { return &net.TCPAddr{} }
func (c *segConn) RemoteAddr() net.Addr               { return &net.TCPAddr{IP: net.IPv4(1, 2, 3, 4), Port: 5} }
func (c *segConn) SetDeadline(t time.Time) error      { return nil }
func (c *segConn) SetReadDeadline(t time.Time) error  { return nil }
func (c *segConn) SetWriteDeadline(t time.Time) error { return nil }

func findingSetup(t *testing.T, msgs ...[]byte) (*Connection, *segConn, [][]byte) {
	var key [32]byte
	for i := range key {
		key[i] = byte(i)
	}
	server, _ := crypto.NewSecureSessionFromSharedKey(key)
	client, _ := crypto.NewSecureClientSessionFromSharedKey(key)
	var wire [][]byte
	for _, m := range msgs {
		r, err := client.Encrypt(bytes.NewBuffer(m))
		if err != nil {
			t.Fatal(err)
		}
		b, _ := ioutil.ReadAll(r)
		wire = append(wire, b)
	}
	ctx := NewContextForSecuredDevice(nil)
	sc := &segConn{}
	con := NewConnection(sc, ctx)
	ctx.GetSessionForConnection(sc).SetCryptographer(server)
	return con, sc, wire
}

// (a) two messages arrive in one TCP segment: the per-call buffered reader drops the second one
func TestFindingC07CoalescedMessages(t *testing.T) {
	m1, m2 := []byte("first message"), []byte("second message")
	con, sc, wire := findingSetup(t, m1, m2)
	sc.segs = [][]byte{append(append([]byte{}, wire[0]...), wire[1]...)}
	var got []byte
	buf := make([]byte, 4096)
	for len(got) < len(m1)+len(m2) {
		n, err := con.Read(buf)
		got = append(got, buf[:n]...)
		if err != nil {
			t.Fatalf("read failed after %q: %v", got, err)
		}
		if n == 0 && len(sc.segs) == 0 && len(got) < len(m1)+len(m2) {
			// nothing left on the wire and nothing delivered
			if _, err := con.Read(buf); err != nil {
				t.Fatalf("bytes lost: got %q then %v", got, err)
			}
		}
	}
	if string(got) != string(m1)+string(m2) {
		t.Fatalf("got %q", got)
	}
}

// (b) a message that exactly fills the caller's buffer: the next read must not signal end-of-stream
func TestFindingC07NoEOFAfterExactFit(t *testing.T) {
	m1, m2 := bytes.Repeat([]byte("x"), 64), []byte("next")
	con, sc, wire := findingSetup(t, m1, m2)
	sc.segs = [][]byte{wire[0], wire[1]}
	buf := make([]byte, 64)
	if n, err := con.Read(buf); n != 64 || err != nil {
		t.Fatalf("first read: %d %v", n, err)
	}
	var got []byte
	for i := 0; i < 3 && len(got) < len(m2); i++ {
		n, err := con.Read(buf)
		if err != nil {
			t.Fatalf("read %d after an exact fit: n=%d err=%v (peer still connected and sending)", i, n, err)
		}
		got = append(got, buf[:n]...)
	}
	if string(got) != "next" {
		t.Fatalf("got %q", got)
	}
}

// (c) a frame that fails authentication must be reported as an error by the read that meets it
func TestFindingC07DecryptErrorIsReported(t *testing.T) {
	con, sc, wire := findingSetup(t, []byte("hello"))
	wire[0][5] ^= 1
	sc.segs = [][]byte{wire[0]}
	n, err := con.Read(make([]byte, 16))
	if err == nil {
		t.Fatalf("altered frame: read returned n=%d err=nil", n)
	}
}

func newServerSessionForFinding(key [32]byte) (crypto.Cryptographer, error) {
	return crypto.NewSecureSessionFromSharedKey(key)
}
