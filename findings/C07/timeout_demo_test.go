// place in: hap/   (known finding C07/lossless: a read timeout in the middle of a multi-frame message drops the
// plaintext of the frames already decrypted; the frame counter has advanced, so the bytes are lost silently)
package hap

import (
	"bytes"
	"testing"
)

type timeoutErr struct{}

func (timeoutErr) Error() string   { return "i/o timeout" }
func (timeoutErr) Timeout() bool   { return true }
func (timeoutErr) Temporary() bool { return true }

type idleConn struct {
	segConn
	idleAfter int // report one timeout after this many segments
	reads     int
}

func (c *idleConn) Read(b []byte) (int, error) {
	if c.reads == c.idleAfter {
		c.reads++
		return 0, timeoutErr{}
	}
	c.reads++
	return c.segConn.Read(b)
}

func TestFindingC07TimeoutInsideMessageLosesPlaintext(t *testing.T) {
	msg := append(bytes.Repeat([]byte("a"), 1024), []byte("0123456789")...)
	con0, _, wire := findingSetup(t, msg)
	_ = con0
	// same keys, fresh connection whose socket goes idle between the two frames of the message
	var key [32]byte
	for i := range key {
		key[i] = byte(i)
	}
	ic := &idleConn{idleAfter: 1}
	ic.segs = [][]byte{wire[0][:2+1024+16], wire[0][2+1024+16:]}
	ctx := NewContextForSecuredDevice(nil)
	con := NewConnection(ic, ctx)
	srv, _ := newServerSessionForFinding(key)
	ctx.GetSessionForConnection(ic).SetCryptographer(srv)
	var got []byte
	buf := make([]byte, 4096)
	for i := 0; i < 6 && len(got) < len(msg); i++ {
		n, err := con.Read(buf)
		got = append(got, buf[:n]...)
		if err != nil {
			if te, ok := err.(interface{ Timeout() bool }); ok && te.Timeout() {
				continue // idle period: the caller retries
			}
			t.Fatalf("read: %v", err)
		}
	}
	if !bytes.Equal(got, msg) {
		t.Fatalf("peer sent %d bytes, reader got %d bytes (first frame lost: %v)", len(msg), len(got), len(got) == 10)
	}
}
