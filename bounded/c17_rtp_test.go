package rtp

// Bounded stand-in for the part of C17 that contracts do not reach (the reflection-driven encoder / decoder).
// Injected into package rtp with `go test -overlay` by `/verif/check C17`; labelled `bounded` in the evidence and never
// counted as proved. Bounds are stated at each test.

import (
	"bytes"
	"reflect"
	"testing"

	"github.com/brutella/hc/tlv8"
)

func boundedTargets() []func() interface{} {
	return []func() interface{}{
		func() interface{} { return &StreamingStatus{} },
		func() interface{} { return &SetupEndpoints{} },
		func() interface{} { return &SetupEndpointsResponse{} },
		func() interface{} { return &StreamConfiguration{} },
		func() interface{} { return &AudioStreamConfiguration{} },
		func() interface{} { return &VideoStreamConfiguration{} },
		func() interface{} { return &Configuration{} },
	}
}

// Bound: every byte string of length <= 4 over {0,1,2,3,4,5,255}; every sequence of one or two items with tag in 0..5,
// length 0..4 (3731 inputs), against the 7 RTP message types. A panic is a failure.
func TestBoundedC17DecoderNoPanic(t *testing.T) {
	alphabet := []byte{0, 1, 2, 3, 4, 5, 255}
	var inputs [][]byte
	var rec func(cur []byte, n int)
	rec = func(cur []byte, n int) {
		inputs = append(inputs, append([]byte{}, cur...))
		if n == 0 {
			return
		}
		for _, b := range alphabet {
			rec(append(cur, b), n-1)
		}
	}
	rec(nil, 4)
	var items [][]byte
	for tg := byte(0); tg <= 5; tg++ {
		for l := 0; l <= 4; l++ {
			it := []byte{tg, byte(l)}
			for k := 0; k < l; k++ {
				it = append(it, 1)
			}
			items = append(items, it)
		}
	}
	for _, a := range items {
		inputs = append(inputs, a)
		for _, b := range items {
			inputs = append(inputs, append(append([]byte{}, a...), b...))
		}
	}
	failures := 0
	for _, in := range inputs {
		for ti, mk := range boundedTargets() {
			func() {
				defer func() {
					if r := recover(); r != nil {
						failures++
						if failures <= 3 {
							t.Errorf("panic: target %d input %x: %v", ti, in, r)
						}
					}
				}()
				tlv8.Unmarshal(in, mk())
			}()
		}
	}
	if failures > 3 {
		t.Errorf("%d panics in all", failures)
	}
}

// Bound: the library's default stream configurations and three responses with extreme field values; the bytes of an earlier
// Marshal result must not change when Marshal is called again (twice, in both orders), and must still decode to the value.
func TestBoundedC17MarshalResultStable(t *testing.T) {
	vals := []interface{}{
		SetupEndpointsResponse{SessionId: []byte{1, 2, 3}, Status: 0, AccessoryAddr: Addr{IPVersion: 0, IPAddr: "192.168.0.7", VideoRtpPort: 65535, AudioRtpPort: 1}, SsrcVideo: -2147483648, SsrcAudio: 2147483647},
		DefaultVideoStreamConfiguration(),
		DefaultAudioStreamConfiguration(),
		StreamingStatus{Status: 2},
	}
	for round := 0; round < 2; round++ {
		for i := range vals {
			a, err := tlv8.Marshal(vals[i])
			if err != nil {
				t.Fatalf("marshal %d: %v", i, err)
			}
			keep := append([]byte{}, a...)
			for j := range vals {
				if _, err := tlv8.Marshal(vals[j]); err != nil {
					t.Fatalf("marshal %d: %v", j, err)
				}
				if !bytes.Equal(a, keep) {
					t.Fatalf("round %d: the bytes returned by Marshal(value %d) changed when value %d was marshalled afterwards", round, i, j)
				}
			}
		}
	}
	// flat values round-trip
	in := SetupEndpointsResponse{SessionId: []byte{9}, Status: 1, AccessoryAddr: Addr{IPVersion: 1, IPAddr: "::1", VideoRtpPort: 1, AudioRtpPort: 65535}, SsrcVideo: -1, SsrcAudio: 1 << 30}
	b, err := tlv8.Marshal(in)
	if err != nil {
		t.Fatal(err)
	}
	var out SetupEndpointsResponse
	if err := tlv8.Unmarshal(b, &out); err != nil {
		t.Fatal(err)
	}
	if !reflect.DeepEqual(in.AccessoryAddr, out.AccessoryAddr) || in.SsrcVideo != out.SsrcVideo || in.SsrcAudio != out.SsrcAudio || in.Status != out.Status || !bytes.Equal(in.SessionId, out.SessionId) {
		t.Fatalf("round trip: in=%+v out=%+v", in, out)
	}
}

// Bound: video stream configurations with 1..3 codecs, each with 1..3 attribute entries (the tagged lists nested in tagged
// lists of the RTP types), audio stream configurations with 1..3 codecs, and the two library defaults: Unmarshal(Marshal(v))
// must be deeply equal to v.
func TestBoundedC17ListRoundTrip(t *testing.T) {
	codec := func(typ byte, nattr int) VideoCodecConfiguration {
		c := VideoCodecConfiguration{
			Type: typ,
			Parameters: VideoCodecParameters{
				Profiles:       []VideoCodecProfile{{VideoCodecProfileMain}, {VideoCodecProfileHigh}},
				Levels:         []VideoCodecLevel{{VideoCodecLevel3_2}, {VideoCodecLevel4}},
				Packetizations: []VideoCodecPacketization{{1}},
			},
		}
		for k := 0; k < nattr; k++ {
			c.Attributes = append(c.Attributes, VideoCodecAttributes{uint16(640 + k), uint16(65535 - k), byte(30 - k)})
		}
		return c
	}
	var vals []interface{}
	for ncodec := 1; ncodec <= 3; ncodec++ {
		for nattr := 1; nattr <= 3; nattr++ {
			v := VideoStreamConfiguration{}
			for k := 0; k < ncodec; k++ {
				v.Codecs = append(v.Codecs, codec(byte(k+1), nattr))
			}
			vals = append(vals, v)
		}
		a := AudioStreamConfiguration{ComfortNoise: ncodec%2 == 1}
		for k := 0; k < ncodec; k++ {
			a.Codecs = append(a.Codecs, AudioCodecConfiguration{Type: byte(k + 2), Parameters: AudioCodecParameters{Channels: 1, Bitrate: byte(k % 2), Samplerate: byte(k + 1)}})
		}
		vals = append(vals, a)
	}
	vals = append(vals, DefaultVideoStreamConfiguration(), DefaultAudioStreamConfiguration())
	for i, v := range vals {
		b, err := tlv8.Marshal(v)
		if err != nil {
			t.Fatalf("value %d: marshal: %v", i, err)
		}
		out := reflect.New(reflect.TypeOf(v))
		if err := tlv8.Unmarshal(b, out.Interface()); err != nil {
			t.Fatalf("value %d: unmarshal: %v", i, err)
		}
		if !reflect.DeepEqual(out.Elem().Interface(), v) {
			t.Errorf("value %d does not round-trip:\n in  %+v\n out %+v\n bytes %x", i, v, out.Elem().Interface(), b)
		}
	}
}
