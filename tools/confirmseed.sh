#!/bin/sh
# usage: confirmseed.sh <change dir with patch.diff + demo_test.go> <worktree> <package dir for the demo> <test name regexp>
# Confirms: with the patch the library builds, the whole existing suite passes and the demo FAILS; without it the demo PASSES.
cd "$2" || exit 2
export GOFLAGS=-mod=mod GOPROXY=off GOSUMDB=off GOTOOLCHAIN=local TMPDIR=/tmp/confirm_tmp; mkdir -p $TMPDIR
git checkout -q -- . && git clean -qfd
cp "$1/demo_test.go" "$3/zz_seed_demo_test.go"
go test -vet=off -count=1 -run "$4" "./$3/" > /tmp/confirm_base.out 2>&1; base=$?
git apply "$1/patch.diff" || { echo "patch does not apply"; exit 2; }
go build ./... > /tmp/confirm_build.out 2>&1; build=$?
mv "$3/zz_seed_demo_test.go" /tmp/confirm_demo.go
go test -vet=off -count=1 ./... > /tmp/confirm_suite.out 2>&1; suite=$?
mv /tmp/confirm_demo.go "$3/zz_seed_demo_test.go"
go test -vet=off -count=1 -run "$4" "./$3/" > /tmp/confirm_mut.out 2>&1; mut=$?
git checkout -q -- . && git clean -qfd; rm -rf $TMPDIR
echo "demo on HEAD: exit=$base (want 0); build with patch: $build (want 0); suite with patch: $suite (want 0); demo with patch: exit=$mut (want != 0)"
[ $base -eq 0 ] && [ $build -eq 0 ] && [ $suite -eq 0 ] && [ $mut -ne 0 ] && echo CONFIRMED || echo NOT-CONFIRMED
