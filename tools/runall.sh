#!/bin/sh
# Runs every check registered in MANIFEST.json on /repo's current tree (quick tier by default) and prints one line each.
cd /verif
tier=${1:-quick}
rc=0
for p in $(python3 -c "import json;print(' '.join(c['property_id'] for c in json.load(open('MANIFEST.json'))['checks']))"); do
  s=$(date +%s)
  ./check $p $tier > /tmp/runall_$p.out 2>&1; r=$?
  echo "$p rc=$r $(($(date +%s)-s))s $(grep -c '^VIOLATION' /tmp/runall_$p.out) violations; $(tail -1 /tmp/runall_$p.out | cut -c1-140)"
  [ $r -ne 0 ] && rc=1
done
exit $rc
