#!/bin/sh
# usage: probe_pred.sh <kept-script> [solver] [timeout]   -- inlines the goal's named predicate and probes its conjuncts
f="$1"
python3 - "$f" <<'PY'
import sys,re
f=sys.argv[1]
lines=open(f).read().rstrip().split('\n')
last=lines[-2]
m=re.search(r'\(not (pd_\w+)\)',last)
name=m.group(1)
for i,l in enumerate(lines):
    if l.startswith('(assert (= %s '%name):
        body=l[len('(assert (= %s '%name):-2]
        break
guard=re.search(r'\(assert \(and (\S+) ',last).group(1)
lines[-2]='(assert (and %s (not %s)))'%(guard,body)
open('/tmp/probe_in.smt2','w').write('\n'.join(lines)+'\n')
PY
python3 /verif/tools/smtprobe_q.py /tmp/probe_in.smt2 ${2:-z3-new} ${3:-10} 2>&1 | cut -c1-300
