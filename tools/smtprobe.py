#!/usr/bin/env python3
"""Debug helper: split the goal of a single-obligation govc script into conjuncts and test each one.
usage: smtprobe.py file.smt2 [solver] [timeout_s]"""
import sys, subprocess, tempfile, os

def parse(s, i=0):
    # returns (node, next) ; node = str atom or list
    while s[i].isspace(): i += 1
    if s[i] == '(':
        i += 1; out = []
        while True:
            while s[i].isspace(): i += 1
            if s[i] == ')': return out, i + 1
            n, i = parse(s, i); out.append(n)
    j = i
    if s[i] == '"':
        j = s.index('"', i + 1) + 1
    else:
        while not s[j].isspace() and s[j] not in '()': j += 1
    return s[i:j], j

def show(n):
    return n if isinstance(n, str) else '(' + ' '.join(show(x) for x in n) + ')'

def conjuncts(n):
    if isinstance(n, list) and n and n[0] == 'and':
        out = []
        for c in n[1:]: out += conjuncts(c)
        return out
    return [n]

def main():
    f = sys.argv[1]; solver = sys.argv[2] if len(sys.argv) > 2 else 'z3-new'; to = sys.argv[3] if len(sys.argv) > 3 else '10'
    lines = open(f).read().rstrip().split('\n')
    assert lines[-1].startswith('(check-sat)')
    goal_line = lines[-2]
    prefix = '\n'.join(lines[:-2])
    node, _ = parse(goal_line)
    assert node[0] == 'assert' and node[1][0] == 'and'
    guard, neg = node[1][1], node[1][2]
    assert neg[0] == 'not'
    goal = neg[1]
    hyps = []
    while isinstance(goal, list) and goal[0] == '=>':
        hyps.append(goal[1]); goal = goal[2]
    for k, c in enumerate(conjuncts(goal)):
        q = prefix + '\n(assert %s)\n' % show(guard) + ''.join('(assert %s)\n' % show(h) for h in hyps) + '(assert (not %s))\n(check-sat)\n' % show(c)
        with tempfile.NamedTemporaryFile('w', suffix='.smt2', delete=False) as t: t.write(q)
        try:
            r = subprocess.run([solver, '-T:' + to, t.name], capture_output=True, text=True).stdout.strip().split('\n')[0]
        finally:
            os.unlink(t.name)
        print('%-8s %s' % (r, show(c)[:300]))

main()
