#!/usr/bin/env python3
"""Rewrite the status table of DESIGN.md section 11.1 from the evidence files of the last run."""
import json, re
V = '/verif'
props = json.load(open(f'{V}/props.json'))
ids = [json.loads(l)['id'] for l in open(f'{V}/properties.jsonl')]
rows = ['| id  | functions under contract | obligations (quick, unchanged tree) | discharged by | not decided (see props.json `undecided_subclaims`) |', '|-----|--------:|------:|---|---|']
for i in ids:
    e = json.load(open(f'{V}/evidence/{i}.json'))
    c = e['coverage']
    nf = len(c.get('functions_under_contract') or [])
    by = ', '.join(f'{k} {v}' for k, v in sorted((c.get('discharged_by_solver') or {}).items()))
    und = props[i].get('undecided_subclaims', [])
    short = '; '.join(u.split(':')[0][:70] for u in und) if und else '-'
    extra = ''
    if c.get('known_findings_matched'):
        extra = f" (+{c['known_findings_matched']} known finding)"
    if c.get('bounded_checks'):
        extra += f" (+{len(c['bounded_checks'])} bounded stand-in, not counted)"
    rows.append(f"| {i} | {nf} | {c['obligations']}{extra} | {by} | {short} |")
s = open(f'{V}/DESIGN.md').read()
m = re.search(r'\| id  \| functions under contract \|.*?\n\n', s, re.S)
s = s[:m.start()] + '\n'.join(rows) + '\n\n' + s[m.end():]
open(f'{V}/DESIGN.md', 'w').write(s)
print('table rewritten,', len(rows) - 2, 'rows')
