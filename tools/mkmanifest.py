#!/usr/bin/env python3
"""Regenerate /verif/MANIFEST.json from props.json (claimed checks) and notapplicable.json."""
import json, subprocess, os
V = '/verif'
props = json.load(open(f'{V}/props.json'))
allids = [json.loads(l)['id'] for l in open(f'{V}/properties.jsonl')]
na_reasons = json.load(open(f'{V}/notapplicable.json')) if os.path.exists(f'{V}/notapplicable.json') else {}
try:
    commits = subprocess.run(['git', '-C', '/repo', 'log', '--format=%H %s'], capture_output=True, text=True).stdout.strip().split('\n')
    hook_commits = [c.split()[0] for c in commits if ' verif:' in c]
except Exception:
    hook_commits = []
checks = []
for pid in allids:
    if pid not in props:
        continue
    p = props[pid]
    level = p.get('level', 'proof')
    checks.append({
        'property_id': pid,
        'quick_cmd': f'./check {pid} quick',
        'thorough_cmd': f'./check {pid} thorough',
        'evidence_file': f'/verif/evidence/{pid}.json',
        'replay_cmd_template': './check --replay {path}',
        'engine': 'govc',
        'technique': p.get('technique', 'contract-based deductive verification: weakest-precondition VCs generated from go/ssa of the real code against contracts in /repo/*/contracts_verif.go, discharged by z3/cvc5'),
        'level_claimed': {
            'category': level,
            'text': p.get('level_text', p.get('explanation', '')),
            'design_ref': f'DESIGN.md section 7 {pid}',
        },
        'level_note': '; '.join(p.get('assumptions', []) + ['trusted base: govc (VC generator written for this task), go/ssa, z3 5.1.0 / z3 4.8.12 / cvc5 1.0.3, assumed contracts listed in the evidence file']),
    })
na = [{'property_id': pid, 'reason': na_reasons.get(pid, 'check not built yet (work in progress; DESIGN.md section 7 has the planned contracts)')} for pid in allids if pid not in props]
m = {
    'version': 1,
    'setup_cmd': './setup.sh',
    'hooks': {
        'guard': 'verif',
        'enable': 'go build -tags verif ./...   (the only tagged files are comment-only contracts_verif.go files: the tag changes no object code)',
        'baseline_off_cmd': 'cd /repo && GOFLAGS=-mod=mod GOPROXY=off GOSUMDB=off GOTOOLCHAIN=local go test -vet=off -count=1 ./...',
        'source_commits': hook_commits,
        'add_only': True,
    },
    'engines': [{'name': 'govc', 'path': '/verif/bin/govc', 'serves_properties': [c['property_id'] for c in checks],
                 'kind_free_text': 'home-made deductive verifier for Go: VC generation over go/ssa, contracts as structured comments in /repo, obligations discharged by z3 5.1.0 / z3 4.8.12 / cvc5 1.0.3'}],
    'checks': checks,
    'not_applicable': na,
    'notes': 'See DESIGN.md. fix: commits in /repo repair genuine defects found by the checks; known_findings.json records them.',
}
json.dump(m, open(f'{V}/MANIFEST.json', 'w'), indent=1)
print('checks:', [c['property_id'] for c in checks], 'not_applicable:', len(na))
