#!/bin/sh
# Runs every kept seeded change against the checks: applies it to /repo, runs the property's quick check, undoes it.
# A seeded change must make its property's check exit 1 with a VIOLATION line (must-fail corpus).
cd /verif
git -C /repo diff --quiet || { echo "/repo has uncommitted changes"; exit 2; }
rc=0
bak=$(mktemp -d); cp -r evidence/. $bak/   # seeded runs rewrite the evidence files: restore the clean-tree evidence afterwards
for d in seeded/*/; do
  id=$(basename $d); prop=${id%%-*}
  [ -n "$1" ] && [ "$1" != "$prop" ] && [ "$1" != "$id" ] && continue
  extra=$(python3 -c "import json;print(' '.join(json.load(open('$d/meta.json')).get('also_check',[])))")
  if ! git -C /repo apply --check /verif/$d/patch.diff 2>/dev/null; then echo "$id: patch no longer applies (skipped)"; continue; fi
  git -C /repo apply /verif/$d/patch.diff
  hit=""
  for p in $prop $extra; do
    ./check $p quick > /tmp/seeded_$id_$p.out 2>&1
    if [ $? -eq 1 ] && grep -q "^VIOLATION property=$p" /tmp/seeded_$id_$p.out; then hit="$hit $p($(grep -c '^VIOLATION' /tmp/seeded_$id_$p.out))"; fi
  done
  git -C /repo checkout -- .
  if [ -n "$hit" ]; then echo "$id: DETECTED by$hit"; else echo "$id: MISSED"; rc=1; fi
done
cp -r $bak/. evidence/; rm -rf $bak
exit $rc
