#!/bin/sh
# usage: tryseed.sh <patch.diff> <prop> [<prop>...]   - apply a seeded change to /repo, run the checks, undo it
patch="$1"; shift
cd /repo || exit 2
git diff --quiet || { echo "/repo has uncommitted changes"; exit 2; }
git apply "$patch" || { echo "patch does not apply"; exit 2; }
cd /verif
for p in "$@"; do
  ./check "$p" quick > /tmp/tryseed_$p.out 2>&1; rc=$?
  echo "== $p exit=$rc"; grep -c "^VIOLATION" /tmp/tryseed_$p.out | sed 's/^/   violations: /'; grep "^VIOLATION" /tmp/tryseed_$p.out | sed 's/.*obligation=/   /' | cut -c1-160 | head -8; tail -1 /tmp/tryseed_$p.out
done
git -C /repo checkout -- . 
