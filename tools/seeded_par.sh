#!/bin/sh
# Runs every kept seeded change against the checks on a scratch copy of /repo and /verif (so that /repo itself and the
# evidence files stay untouched and other work can go on): applies the change to the copy, runs the property's quick
# check there, undoes it. A seeded change must make its property's check exit 1 with a VIOLATION line.
# usage: tools/seeded_par.sh [PROP|SEED-ID ...]
W=${SEEDRUN_DIR:-/tmp/seedrun}
export GOFLAGS=-mod=mod GOPROXY=off GOSUMDB=off GOTOOLCHAIN=local CGO_ENABLED=0
rm -rf $W; mkdir -p $W
git -C /repo worktree prune
git -C /repo worktree add -q --detach $W/repo HEAD || exit 2
mkdir -p $W/verif; (cd /verif && tar cf - --exclude=.git --exclude=replay . ) | (cd $W/verif && tar xf -)
rc=0
for d in /verif/seeded/*/; do
  id=$(basename $d); prop=${id%%-*}
  if [ $# -gt 0 ]; then sel=0; for a in "$@"; do [ "$a" = "$prop" ] || [ "$a" = "$id" ] && sel=1; done; [ $sel -eq 1 ] || continue; fi
  extra=$(python3 -c "import json;print(' '.join(json.load(open('$d/meta.json')).get('also_check',[])))")
  if ! git -C $W/repo apply --check $d/patch.diff 2>/dev/null; then echo "$id: patch no longer applies (skipped)"; continue; fi
  git -C $W/repo apply $d/patch.diff
  hit=""
  for p in $prop $extra; do
    python3 $W/verif/tools/gen_c15.py $W/repo $W/verif/contracts/generated >/dev/null 2>&1
    (cd $W/verif && ./bin/govc check -prop $p -tier quick -repo $W/repo -verif $W/verif) > $W/out_${id}_$p.txt 2>&1
    r=$?
    if [ $r -eq 1 ] && grep -q "^VIOLATION property=$p" $W/out_${id}_$p.txt; then hit="$hit $p($(grep -c '^VIOLATION' $W/out_${id}_$p.txt))"; fi
    [ $r -eq 2 ] && hit="$hit $p(exit2:$(grep -c 'CONTRACT-ERROR\|ENGINE-ERROR' $W/out_${id}_$p.txt))"
  done
  git -C $W/repo checkout -q -- .; git -C $W/repo clean -qfd
  case "$hit" in *"("[0-9]*")"*) echo "$id: DETECTED by$hit";; *) echo "$id: MISSED $hit"; rc=1;; esac
done
git -C /repo worktree remove --force $W/repo; rm -rf $W/verif
exit $rc
