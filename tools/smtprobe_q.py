#!/usr/bin/env python3
"""Like smtprobe.py but skolemises a universally quantified conjunct and probes the conjuncts of its body."""
import sys, subprocess, re, os, tempfile
def parse(s,i=0):
    while s[i].isspace(): i+=1
    if s[i]=='(':
        i+=1; out=[]
        while True:
            while s[i].isspace(): i+=1
            if s[i]==')': return out,i+1
            n,i=parse(s,i); out.append(n)
    j=i
    while not s[j].isspace() and s[j] not in '()': j+=1
    return s[i:j],j
def show(n): return n if isinstance(n,str) else '('+' '.join(show(x) for x in n)+')'
def conj(n):
    if isinstance(n,list) and n and n[0]=='and':
        r=[]
        for c in n[1:]: r+=conj(c)
        return r
    return [n]
def run(q,solver,to):
    with tempfile.NamedTemporaryFile('w',suffix='.smt2',delete=False) as t: t.write(q)
    try: return subprocess.run([solver,'-T:'+to,t.name],capture_output=True,text=True).stdout.strip().split('\n')[0]
    finally: os.unlink(t.name)
def subst(n,m):
    if isinstance(n,str): return m.get(n,n)
    return [subst(x,m) for x in n]
f=sys.argv[1]; solver=sys.argv[2] if len(sys.argv)>2 else 'z3-new'; to=sys.argv[3] if len(sys.argv)>3 else '10'
lines=open(f).read().rstrip().split('\n')
prefix='\n'.join(lines[:-2]); node,_=parse(lines[-2])
guard,goal=node[1][1],node[1][2][1]
hyps=[]
def probe(goal,hyps,decls,depth=0):
    while isinstance(goal,list) and goal[0]=='=>':
        hyps=hyps+[goal[1]]; goal=goal[2]
    for c in conj(goal):
        if isinstance(c,list) and c[0]=='forall':
            m={}; d=decls
            for v,s in c[1]:
                sk='sk_'+v; m[v]=sk; d+=f"(declare-const {sk} {show(s)})\n"
            body=c[2]
            if body[0]=='!': body=body[1]
            probe(subst(body,m),hyps,d,depth+1)
            continue
        q=prefix+'\n'+decls+f'(assert {show(guard)})\n'+''.join(f'(assert {show(h)})\n' for h in hyps)+f'(assert (not {show(c)}))\n(check-sat)\n'
        print('  '*depth+'%-8s %s'%(run(q,solver,to),show(c)[:260]))
probe(goal,hyps,'')
